"""writers-replay engine: C11 (Normalize), later C12/C13/C14/C01a."""
import json
import os
import time

from common import (SPEC, WORK, ToolError, log, read_ndjson, require_ok, run_harness, seed,
                    tlc, tlc_lines, write_ndjson)

# ---------------------------------------------------------------------------
# C11
# ---------------------------------------------------------------------------

# (cfg suffix, universe, Body, MaxErr, EarlyClose, FreeImm)
C11_MC = {
    "quick": [("A", "UA", 1, 1, "FALSE", "TRUE"),
              ("B", "UB", 0, 0, "FALSE", "FALSE"),
              ("C", "UC", 0, 0, "FALSE", "FALSE")],
    "thorough": [("A", "UA", 1, 1, "FALSE", "TRUE"),
                 ("Ae", "UA", 1, 1, "TRUE", "TRUE"),
                 ("B", "UB", 0, 0, "FALSE", "FALSE"),
                 ("Be", "UB", 0, 0, "TRUE", "FALSE"),
                 ("C", "UC", 0, 0, "FALSE", "FALSE"),
                 ("D", "UD", 0, 0, "FALSE", "FALSE"),
                 ("E", "UE", 0, 0, "FALSE", "FALSE")],
}

# (universe, Fails, Body, MaxErr, EarlyClose, FreeImm, mode, num)
C11_GEN = {
    "quick": [("UA", "Fails1", 1, 1, "FALSE", "TRUE", "sim", 150),
              ("UA", "FailsAll", 1, 0, "TRUE", "TRUE", "sim", 60),
              ("UB", "Fails1", 1, 1, "FALSE", "TRUE", "sim", 150),
              ("UC", "Fails1", 1, 1, "FALSE", "TRUE", "sim", 150),
              ("UD", "Fails1", 1, 0, "FALSE", "TRUE", "sim", 120),
              ("UD", "Fails0", 0, 0, "TRUE", "FALSE", "sim", 60),
              ("UE", "Fails1", 1, 1, "FALSE", "TRUE", "sim", 120)],
    "thorough": [("UA", "Fails1", 1, 1, "FALSE", "TRUE", "sim", 3000),
                 ("UA", "FailsAll", 1, 0, "TRUE", "TRUE", "sim", 1000),
                 ("UA", "Fails0", 0, 0, "FALSE", "FALSE", "bfs", 0),
                 ("UB", "Fails1", 1, 1, "FALSE", "TRUE", "sim", 3000),
                 ("UB", "Fails1", 0, 0, "TRUE", "FALSE", "sim", 1000),
                 ("UC", "Fails1", 1, 1, "FALSE", "TRUE", "sim", 3000),
                 ("UD", "Fails1", 1, 0, "FALSE", "TRUE", "sim", 3000),
                 ("UD", "Fails0", 0, 0, "TRUE", "FALSE", "sim", 1000),
                 ("UE", "Fails1", 1, 1, "FALSE", "TRUE", "sim", 3000),
                 ("UE", "FailsAll", 1, 1, "TRUE", "TRUE", "sim", 1000)],
}


def _cfg(path, spec, consts, invs=(), post=None):
    with open(path, "w") as f:
        f.write(f"SPECIFICATION {spec}\nCONSTANTS\n")
        for k, v in consts:
            f.write(f"  {k} {v}\n")
        if invs:
            f.write("INVARIANTS " + " ".join(invs) + "\n")
        if post:
            f.write(f"POSTCONDITION {post}\n")
        f.write("CHECK_DEADLOCK FALSE\n")


def c11_model(tier):
    mcs = []
    for (sfx, uni, body, maxerr, early, free) in C11_MC[tier]:
        cfg = os.path.join(WORK, f"MC_Normalize_{sfx}.cfg")
        _cfg(cfg, "Spec", [("U", "<- " + uni), ("Fails", "<- Fails1"), ("Body", f"= {body}"),
                           ("MaxErr", f"= {maxerr}"), ("EarlyClose", f"= {early}"),
                           ("FreeImm", f"= {free}")],
             invs=("NoViolation", "NoPanic", "EndOK") + (() if early == "TRUE" else ("QueueDrained",)))
        r = tlc("MC_Normalize.tla", cfg, workers=8, timeout=1500, tag="mcnorm" + sfx)
        require_ok(r, f"MC_Normalize {sfx}")
        if r["violated"]:
            raise ToolError(f"MC_Normalize {sfx}: the reference model violates {r['violated']} "
                            "(specification defect, not a verdict about the code):\n"
                            + "\n".join(r["out"].splitlines()[-60:]))
        mcs.append({"cfg": f"MC_Normalize[{uni},Body={body},MaxErr={maxerr},EarlyClose={early},"
                           f"FreeImm={free}]", "states": r.get("states", 0),
                    "distinct": r.get("distinct", 0), "depth": r.get("depth", 0),
                    "wall_s": r["wall_s"],
                    "invariants": ["NoViolation", "NoPanic", "EndOK", "QueueDrained"]})
        log(f"[C11] MC {sfx}: {r.get('distinct')} distinct states, {r['wall_s']}s")
    return mcs


def c11_generate(tier):
    streams = []
    gens = []
    for n, (uni, fails, body, maxerr, early, free, mode, num) in enumerate(C11_GEN[tier]):
        cfg = os.path.join(WORK, f"Gen_Normalize_{n}.cfg")
        _cfg(cfg, "Spec", [("U", "<- " + uni), ("Fails", "<- " + fails), ("Body", f"= {body}"),
                           ("MaxErr", f"= {maxerr}"), ("EarlyClose", f"= {early}"),
                           ("FreeImm", f"= {free}")], invs=("Dump",))
        sim = {"num": num, "depth": 200, "seed": seed() * 1000 + n} if mode == "sim" else None
        r = tlc("Gen_Normalize.tla", cfg, workers=1 if sim else 4, simulate=sim, timeout=900,
                tag=f"gennorm{n}")
        require_ok(r, f"Gen_Normalize {uni}")
        got = tlc_lines(r["out"], "REPLAY")
        for k, g in enumerate(got):
            g["id"] = f"{uni}.{fails}.b{body}.e{maxerr}.{'ec' if early == 'TRUE' else 'full'}.{k}"
        gens.append({"universe": uni, "fails": fails, "body": body, "max_err": maxerr,
                     "early_close": early == "TRUE", "mode": mode, "behaviours": len(got),
                     "wall_s": r["wall_s"]})
        streams.extend(got)
    return streams, gens


def c11_conform(streams, tag="c11"):
    """Replays streams through the real Normalize and judges the recorded
    histories with the TLA+ monitor.  Returns verdict records."""
    inp = os.path.join(WORK, f"{tag}_replay_in.ndjson")
    outp = os.path.join(WORK, f"{tag}_replay_out.ndjson")
    write_ndjson(inp, streams)
    run_harness(["replay-normalize", inp, outp])
    recs = read_ndjson(outp)
    if len(recs) != len(streams):
        raise ToolError("replay-normalize returned a different number of records")
    r = tlc("Trace_Normalize.tla", os.path.join(SPEC, "Trace_Normalize.cfg"), workers=1,
            env={"TRACE": outp}, timeout=1800, tag=tag + "trace", xss=True)
    require_ok(r, "Trace_Normalize")
    verdicts = tlc_lines(r["out"], "VERDICT")
    if len(verdicts) != len(recs):
        raise ToolError(f"Trace_Normalize judged {len(verdicts)} of {len(recs)} histories")
    return recs, verdicts, r


def check_c11(tier):
    t0 = time.time()
    mcs = c11_model(tier)
    streams, gens = c11_generate(tier)
    recs, verdicts, tr = c11_conform(streams)
    byid = {r["id"]: r for r in recs}
    violations = []
    refines = 0
    distinct = set()
    nontrivial = 0
    for v in verdicts:
        rec = byid[v["id"]]
        key = json.dumps(rec["inp"], sort_keys=True)
        if key not in distinct:
            distinct.add(key)
            # non-trivial: the stream is not already sequential, i.e. the real
            # writer had to hold back at least one event
            if any(len(d) != 1 for d in rec["outs"]):
                nontrivial += 1
        if rec.get("ref") is not None and rec["outs"] == rec["ref"]:
            refines += 1
        if v["viol"] or v["panic"]:
            violations.append({
                "sig": "C11:" + (v["viol"][0][0] if v["viol"] else "panic"),
                "what": (f"{v['viol'][0][0]} at input #{v['viol'][0][1]}" if v["viol"]
                         else "writer::Normalize panicked: " + v["panic"]),
                "replay": {"property": "C11", "record": {"id": rec["id"], "stream": rec["inp"],
                                                         "universe": next(s["universe"] for s in streams if s["id"] == rec["id"])},
                           "verdict": v},
            })
    sample = recs[len(recs) // 2]
    coverage = {
        "states": sum(m["states"] for m in mcs),
        "distinct_states": sum(m["distinct"] for m in mcs),
        "transitions": sum(m["states"] for m in mcs),
        "exhaustive": True,
        "mc_configs": mcs,
        "checker_cmd": "tlc -workers 8 -config MC_Normalize_<U>.cfg MC_Normalize.tla ; "
                       "tlc -simulate Gen_Normalize ; harness replay-normalize ; "
                       "tlc -workers 1 Trace_Normalize.tla",
        "generators": gens,
        "traces_validated_against_impl": len(verdicts),
        "trace_events": sum(len(r["inp"]) for r in recs),
        "refines_reference": refines,
        "evaluations": len(verdicts),
        "distinct_nontrivial": nontrivial,
        "rule": "a replayed stream is distinct by its event sequence and non-trivial if the real "
                "Normalize forwarded a delta of length != 1 for some input event (it had to "
                "buffer, i.e. the stream was not already sequential)",
        "samples": [{"id": sample["id"],
                     "input": [_short(e) for e in sample["inp"]],
                     "forwarded_per_input": [[_short(e) for e in d] for d in sample["outs"]]}],
    }
    return {"level": "model_checking", "coverage": coverage, "violations": violations,
            "assumptions": [
                "TLC 1.8.0 explores MC_Normalize exhaustively for the listed constants only",
                "streams fed to the real writer are contract-abiding streams generated by TLC "
                "from Contract.tla (simulation mode samples, it does not enumerate)",
                "the harness' recording inner writer and its event projection (evjson.rs) are trusted",
                "events are built from real gherkin objects wrapped in Sources created once per universe",
            ], "wall_s": time.time() - t0}


def _short(e):
    if e["t"] == "Write":
        return "Write"
    if e["t"] == "Sc":
        return f"{e['s']}#{e['cur']}:{e['k']}" + (str(e["i"]) if e["i"] else "")
    if e["t"] in ("FeatS", "FeatF"):
        return f"{e['t']}({e['f']})"
    if e["t"] in ("RuleS", "RuleF"):
        return f"{e['t']}({e['r']})"
    return e["t"]


def replay_c11(payload):
    rec = payload["record"]
    recs, verdicts, _ = c11_conform([rec], tag="c11replay")
    return recs, verdicts


# ---------------------------------------------------------------------------
# C12 (Summarize) and the writer half of C01
# ---------------------------------------------------------------------------

SUM_PIPELINES = ["sn", "snb", "lt", "tee", "orl", "orr", "fos:sn", "rep:sn", "fos:rep:sn", "fos:lt",
                 "rep:tee", "fos:tee", "fos:orl", "asn", "fos:asn", "tdl", "fos:tdl"]

# (universe, HasBefore, HasAfter, NotFoundToo, MaxErr, Truncate, Replay)
SUM_MC = {
    "quick": [("US1", "TRUE", "FALSE", "TRUE", 1, "FALSE", "TRUE"),
              ("US1", "FALSE", "TRUE", "FALSE", 0, "TRUE", "FALSE"),
              ("US3", "TRUE", "TRUE", "TRUE", 1, "FALSE", "TRUE")],
    "thorough": [("US1", "TRUE", "TRUE", "TRUE", 1, "FALSE", "TRUE"),
                 ("US1", "TRUE", "TRUE", "FALSE", 0, "TRUE", "FALSE"),
                 ("US2", "TRUE", "FALSE", "TRUE", 1, "FALSE", "TRUE"),
                 ("US2", "FALSE", "TRUE", "TRUE", 0, "TRUE", "TRUE"),
                 ("US3", "TRUE", "TRUE", "TRUE", 1, "TRUE", "TRUE")],
}
SUM_MC_AMBIG = {"quick": [], "thorough": [("US2", "TRUE", "FALSE", "FALSE", 0, "FALSE", "TRUE")]}
SUM_MC_LAZY = {"quick": [("US1", "FALSE", "FALSE", "FALSE", 1, "FALSE", "FALSE")],
               "thorough": [("US1", "TRUE", "FALSE", "FALSE", 1, "FALSE", "TRUE")]}
# (universe, HasBefore, HasAfter, NotFoundToo, MaxErr, Truncate, Replay, num)
SUM_GEN = {
    "quick": [("US1", "TRUE", "TRUE", "FALSE", 1, "FALSE", "TRUE", 250),
              ("US1", "TRUE", "FALSE", "TRUE", 0, "TRUE", "FALSE", 120),
              ("US2", "TRUE", "TRUE", "FALSE", 1, "FALSE", "TRUE", 250),
              ("US2", "FALSE", "FALSE", "TRUE", 0, "FALSE", "FALSE", 120),
              ("US3", "FALSE", "TRUE", "FALSE", 1, "FALSE", "TRUE", 200),
              ("US2", "TRUE", "TRUE", "TRUE", 1, "FALSE", "TRUE", 150, "TRUE"),
              ("US4", "FALSE", "FALSE", "FALSE", 0, "FALSE", "TRUE", 150, "FALSE", {"same_steps": True})],
    "thorough": [("US1", "TRUE", "TRUE", "FALSE", 1, "FALSE", "TRUE", 5000),
                 ("US2", "TRUE", "TRUE", "TRUE", 1, "FALSE", "TRUE", 2500, "TRUE"),
                 ("US3", "TRUE", "TRUE", "FALSE", 1, "TRUE", "FALSE", 1500, "TRUE"),
                 ("US4", "FALSE", "FALSE", "FALSE", 0, "FALSE", "TRUE", 2500, "FALSE", {"same_steps": True}),
                 ("US4", "TRUE", "TRUE", "TRUE", 1, "FALSE", "TRUE", 1500, "TRUE", {"same_steps": True}),
                 ("US1", "TRUE", "TRUE", "TRUE", 1, "TRUE", "TRUE", 3000),
                 ("US1", "FALSE", "FALSE", "TRUE", 0, "FALSE", "FALSE", 2000),
                 ("US2", "TRUE", "TRUE", "FALSE", 1, "FALSE", "TRUE", 5000),
                 ("US2", "FALSE", "TRUE", "TRUE", 1, "TRUE", "TRUE", 3000),
                 ("US3", "TRUE", "TRUE", "FALSE", 1, "FALSE", "TRUE", 4000),
                 ("US3", "FALSE", "FALSE", "TRUE", 0, "TRUE", "FALSE", 2000)],
}


def _sum_consts(uni, hb, ha, nf, maxerr, trunc, replay, logs="FALSE", ambig="FALSE", lazy="FALSE"):
    return [("U", "<- " + uni), ("HasBefore", "= " + hb), ("HasAfter", "= " + ha),
            ("NotFoundToo", "= " + nf), ("MaxErr", f"= {maxerr}"), ("Truncate", "= " + trunc),
            ("Replay", "= " + replay), ("Logs", "= " + logs), ("Ambig", "= " + ambig), ("LazyParse", "= " + lazy)]


def run_summarize_engine(tier):
    from common import cache_get, cache_put
    cached = cache_get("summarize", tier)
    if cached:
        log("[summarize] using cached engine result")
        return cached
    t0 = time.time()
    mcs = []
    for n, c in enumerate(SUM_MC[tier] + SUM_MC_AMBIG[tier] + SUM_MC_LAZY[tier]):
        cfg = os.path.join(WORK, f"MC_Summarize_{n}.cfg")
        _cfg(cfg, "Spec", _sum_consts(*c, ambig="TRUE" if c in SUM_MC_AMBIG[tier] else "FALSE",
                                      lazy="TRUE" if c in SUM_MC_LAZY[tier] else "FALSE"),
             invs=("StepCountersAgree", "ScenariosAgree", "VerdictAgrees", "ExactWithoutRetries", "OneSummary"))
        r = tlc("MC_Summarize.tla", cfg, workers=8, timeout=3000, tag=f"mcsum{n}")
        require_ok(r, f"MC_Summarize {c}")
        if r["violated"]:
            raise ToolError(f"MC_Summarize {c}: {r['violated']} violated: the code's indicator machine "
                            "differs from the declarative counters outside the named shapes "
                            "(specification defect or a new finding to classify):\n"
                            + "\n".join(r["out"].splitlines()[-60:]))
        mcs.append({"cfg": f"MC_Summarize[{','.join(map(str, c))}]", "states": r.get("states", 0),
                    "distinct": r.get("distinct", 0), "depth": r.get("depth", 0), "wall_s": r["wall_s"],
                    "invariants": ["StepCountersAgree", "ScenariosAgree (modulo F1/F4a/F4b)",
                                   "VerdictAgrees (modulo F1/F4)", "ExactWithoutRetries", "OneSummary"]})
        log(f"[C12] MC {c[0]}: {r.get('distinct')} distinct, {r['wall_s']}s")
    streams = []
    gens = []
    for n, c in enumerate(SUM_GEN[tier]):
        cfg = os.path.join(WORK, f"Gen_Summarize_{n}.cfg")
        logs = c[8] if len(c) > 8 else "FALSE"
        _cfg(cfg, "Spec", _sum_consts(*c[:7], logs=logs, ambig=logs, lazy=logs), invs=("Dump",))
        r = tlc("Gen_Summarize.tla", cfg, workers=1,
                simulate={"num": c[7], "depth": 300, "seed": seed() * 1000 + 77 + n},
                timeout=1800, tag=f"gensum{n}")
        require_ok(r, f"Gen_Summarize {c}")
        got = tlc_lines(r["out"], "REPLAY")
        for k, g in enumerate(got):
            g["id"] = f"{c[0]}.{n}.{k}"
            g["pipelines"] = SUM_PIPELINES
            g["opts"] = c[9] if len(c) > 9 else {}
        gens.append({"universe": c[0], "consts": list(c[1:7]), "log_events": logs == "TRUE",
                     "behaviours": len(got), "wall_s": r["wall_s"]})
        streams.extend(got)
    # group by universe: Trace_Summarize takes U from the first record
    by_uni = {}
    for s in streams:
        by_uni.setdefault(json.dumps([s["universe"], s.get("opts", {})], sort_keys=True), []).append(s)
    verdicts = {}
    recs_all = {}
    for k, (_, group) in enumerate(sorted(by_uni.items())):
        inp = os.path.join(WORK, f"sum_in_{k}.ndjson")
        outp = os.path.join(WORK, f"sum_out_{k}.ndjson")
        write_ndjson(inp, group)
        run_harness(["replay-summarize", inp, outp])
        recs = read_ndjson(outp)
        r = tlc("Trace_Summarize.tla", os.path.join(SPEC, "Trace_Summarize.cfg"), workers=1,
                env={"TRACE": outp}, timeout=3000, tag=f"trsum{k}", xss=True, heap="6g")
        require_ok(r, "Trace_Summarize")
        vs = tlc_lines(r["out"], "VERDICT")
        if len(vs) != len(recs):
            raise ToolError(f"Trace_Summarize judged {len(vs)} of {len(recs)} streams")
        for v in vs:
            verdicts[v["id"]] = v
        for rec in recs:
            recs_all[rec["id"]] = rec
    res = {"mcs": mcs, "gens": gens, "n": len(streams),
           "events": sum(len(s["stream"]) for s in streams),
           "verdicts": list(verdicts.values()),
           "panics": [{"id": i, "panic": r["panic"]} for i, r in recs_all.items() if r.get("panic")],
           "stats": {"retried": sum(1 for r in recs_all.values() if r["actual"]["retried_steps"] > 0),
                     "hookerr": sum(1 for r in recs_all.values() if r["actual"]["hook_errors"] > 0),
                     "retried_or_hookerr": sum(1 for r in recs_all.values()
                                               if r["actual"]["hook_errors"] > 0 or r["actual"]["retried_steps"] > 0),
                     "failed": sum(1 for r in recs_all.values() if r["actual"]["failed"]),
                     "distinct": len({json.dumps(s["stream"], sort_keys=True) for s in streams})},
           "bad": {i: {"universe": recs_all[i]["universe"], "stream": recs_all[i]["stream"],
                       "actual": recs_all[i]["actual"], "verdicts": recs_all[i]["verdicts"],
                       "summary": recs_all[i].get("summary")}
                   for i, v in list(verdicts.items()) if v["viol"]},
           "sample": {k: recs_all[streams[len(streams) // 3]["id"]][k]
                      for k in ("id", "actual", "log", "summary")},
           "sample_stream": [_short(e) for e in streams[len(streams) // 3]["stream"]],
           "wall_s": time.time() - t0}
    # bound the size of what is cached
    if len(res["bad"]) > 300:
        keep = list(res["bad"])[:300]
        res["bad"] = {k: res["bad"][k] for k in keep}
    cache_put("summarize", tier, res)
    return res


def _sum_violations(res, prop):
    out = []
    for v in res["verdicts"]:
        for viol in v["viol"]:
            if viol[0] != prop:
                continue
            shape = viol[2] if prop == "C12" else ""
            sig = f"{prop}:{viol[1]}" + (f":{shape}" if shape else "")
            out.append({"sig": sig,
                        "what": f"{viol[1]} ({viol[2]}) on stream {v['id']}",
                        "replay": {"property": prop, "rule": viol[1], "detail": viol[2],
                                   "record": res["bad"].get(v["id"])}})
    for p in res["panics"]:
        if prop == "C12":
            out.append({"sig": "C12:summarize-panicked", "what": f"Summarize panicked: {p['panic']}",
                        "replay": {"property": "C12", "record": res["bad"].get(p["id"])}})
    return out


def check_c12(tier):
    t0 = time.time()
    res = run_summarize_engine(tier)
    cov = {
        "states": sum(m["states"] for m in res["mcs"]),
        "distinct_states": sum(m["distinct"] for m in res["mcs"]),
        "transitions": sum(m["states"] for m in res["mcs"]),
        "exhaustive": True, "mc_configs": res["mcs"], "generators": res["gens"],
        "checker_cmd": "tlc MC_Summarize.tla ; tlc -simulate Gen_Summarize.tla ; harness replay-summarize ; "
                       "tlc -workers 1 Trace_Summarize.tla",
        "traces_validated_against_impl": res["n"], "trace_events": res["events"],
        "evaluations": res["n"],
        "distinct_nontrivial": res["stats"].get("retried_or_hookerr",
                                                 max(res["stats"]["retried"], res["stats"]["hookerr"])),
        "rule": "streams are sampled by TLC (-simulate) from SeqGen.tla; counted non-trivial if the real "
                "Summarize ended with retried_steps > 0 or hook_errors > 0: only such "
                "streams can distinguish a last attempt from an earlier one; "
                f"{res['stats']['distinct']} of the streams are pairwise distinct",
        "samples": [{"stream": res["sample_stream"], "real_summarize": res["sample"]}],
    }
    return {"level": "model_checking", "coverage": cov, "violations": _sum_violations(res, "C12"),
            "assumptions": ["TLC 1.8.0; MC_Summarize is exhaustive for its universes only",
                            "streams are sequential contract-abiding streams generated by TLC from SeqGen.tla",
                            "features/rules counters are read back from the summary text (the only place they are visible)",
                            "harness recording writer and projection trusted"],
            "wall_s": time.time() - t0}


# ---------------------------------------------------------------------------
# C13 (combinators)
# ---------------------------------------------------------------------------

C13_LEN = {"quick": 3, "thorough": 3}
C13_SIM = {"quick": (300, 7), "thorough": (2500, 8)}


def _c13_judge(inputs, tag):
    """inputs of ONE universe -> (harness records, verdicts)"""
    inp = os.path.join(WORK, f"{tag}_in.ndjson")
    outp = os.path.join(WORK, f"{tag}_out.ndjson")
    write_ndjson(inp, inputs)
    run_harness(["replay-comb", inp, outp])
    recs = read_ndjson(outp)
    r = tlc("Trace_Combinators.tla", os.path.join(SPEC, "Trace_Combinators.cfg"), workers=1,
            env={"TRACE": outp}, timeout=3000, tag="tr" + tag, xss=True, heap="6g")
    require_ok(r, "Trace_Combinators")
    vs = tlc_lines(r["out"], "VERDICT")
    if len(vs) != len(recs):
        raise ToolError(f"Trace_Combinators judged {len(vs)} of {len(recs)} inputs")
    return recs, vs


def check_c13(tier):
    t0 = time.time()
    inputs = []
    gens = []
    states = distinct = 0
    groups = [("pairs", 0), ("fin3", 0)] if tier == "quick" else [("bfs", C13_LEN[tier])]
    for grp, maxlen in groups:
        cfg = os.path.join(WORK, f"Gen_Combinators_{grp}.cfg")
        _cfg(cfg, "Spec", [("U", "<- UK"), ("MaxLen", f"= {maxlen}"), ("Group", f'= "{grp}"')], invs=("Dump",))
        r = tlc("Gen_Combinators.tla", cfg, workers=1, timeout=3000, tag="gencomb" + grp, heap="6g")
        require_ok(r, f"Gen_Combinators {grp}")
        got = tlc_lines(r["out"], "REPLAY")
        gens.append({"mode": "exhaustive:" + grp, "max_len": maxlen or (2 if grp == "pairs" else 3),
                     "sequences": len(got), "states": r.get("distinct", 0), "wall_s": r["wall_s"]})
        states += r.get("states", 0)
        distinct += r.get("distinct", 0)
        inputs.extend(got)
    num, depth = C13_SIM[tier]
    cfg = os.path.join(WORK, "Gen_Combinators_sim.cfg")
    _cfg(cfg, "Spec", [("U", "<- UK"), ("MaxLen", f"= {depth}"), ("Group", '= "bfs"')], invs=("Dump",))
    r = tlc("Gen_Combinators.tla", cfg, workers=1, simulate={"num": num, "depth": depth + 1,
                                                            "seed": seed() * 1000 + 13},
            timeout=3000, tag="gencombsim")
    require_ok(r, "Gen_Combinators sim")
    got = [g for g in tlc_lines(r["out"], "REPLAY") if len(g["inp"]) == depth]
    gens.append({"mode": "simulate", "len": depth, "sequences": len(got), "wall_s": r["wall_s"]})
    inputs.extend(got)
    for k, g in enumerate(inputs):
        g["id"] = f"k{k}"
    recs, vs = _c13_judge(inputs, "comb")
    # every placement of @allow.skipped on feature / rule / scenario (its own universe)
    cfg = os.path.join(WORK, "Gen_Combinators_tagmatrix.cfg")
    _cfg(cfg, "Spec", [("U", "<- UKT"), ("MaxLen", "= 0"), ("Group", '= "tagmatrix"')], invs=("Dump",))
    r = tlc("Gen_Combinators.tla", cfg, workers=1, timeout=600, tag="gencombtag")
    require_ok(r, "Gen_Combinators tagmatrix")
    tagin = tlc_lines(r["out"], "REPLAY")
    for k, g in enumerate(tagin):
        g["id"] = f"t{k}"
    gens.append({"mode": "exhaustive:tagmatrix", "universe": "UKT", "sequences": len(tagin), "wall_s": r["wall_s"]})
    recs2, vs2 = _c13_judge(tagin, "combtag")
    inputs = inputs + tagin
    recs = recs + recs2
    vs = vs + vs2
    byid = {x["id"]: x for x in recs}
    violations = []
    for v in vs:
        if v["bad"] or v["panic"]:
            what = (f"nesting {v['bad'][0][0]}: {v['bad'][0][1]} differs" if v["bad"]
                    else "combinator panicked: " + v["panic"])
            violations.append({"sig": "C13:" + (v["bad"][0][0] if v["bad"] else "panic"),
                               "what": what + f" (input {v['id']})",
                               "replay": {"property": "C13", "verdict": v,
                                          "record": {"universe": byid[v["id"]]["universe"],
                                                     "inp": byid[v["id"]]["inp"],
                                                     "results": byid[v["id"]]["results"]}}})
    nontrivial = sum(1 for x in inputs
                     if any(e["k"] == "StepSk" for e in x["inp"]) or
                     (any(e["t"] == "Finished" for e in x["inp"]) and
                      any(e["k"] in ("StepF", "HookF") or e["t"] == "ParseErr" for e in x["inp"])))
    sample = recs[len(recs) // 2]
    cov = {
        "states": states, "distinct_states": distinct, "transitions": states, "exhaustive": True,
        "generators": gens, "nestings": sorted(sample["results"].keys()),
        "checker_cmd": "tlc Gen_Combinators.tla (BFS: all sequences up to MaxLen; plus -simulate) ; "
                       "harness replay-comb ; tlc -workers 1 Trace_Combinators.tla",
        "traces_validated_against_impl": len(vs),
        "comparisons": len(vs) * len(sample["results"]),
        "evaluations": len(vs),
        "distinct_nontrivial": nontrivial,
        "rule": "inputs over the 25-symbol alphabet of Gen_Combinators.tla: quick = all sequences of length <= 2 "
                "plus all triples with run-Finished at one position; thorough = all sequences up to length 3; "
                "plus simulated longer ones (distinct by construction); non-trivial if the input contains a "
                "Skipped step (rewrite can apply) or a run-Finished together with a repeatable failure",
        "samples": [{"input": [_short(e) for e in sample["inp"]],
                     "leaves_of_fos_rep_failed": [[_short(e) for e in leaf]
                                                   for leaf in sample["results"]["fos_rep_failed"]["leaves"]],
                     "stats_of_or": sample["results"]["or"]["stats"]}],
    }
    return {"level": "model_checking", "coverage": cov, "violations": violations,
            "assumptions": ["TLC enumerates every input sequence up to MaxLen over the alphabet; longer inputs are sampled",
                            "the recording leaf writer implements Stats by counting what it received",
                            "nestings that do not type-check (Repeat around a transforming writer, Repeat around Repeat) are out of scope"],
            "wall_s": time.time() - t0}


def c01_writer_side(tier):
    """Violations and coverage of the stats-pipeline verdicts on TLC-generated streams."""
    res = run_summarize_engine(tier)
    viols = _sum_violations(res, "C01")
    npipe = len(SUM_PIPELINES)
    cov = {"streams_replayed_into_pipelines": res["n"], "pipelines": SUM_PIPELINES,
           "verdicts_compared": res["n"] * npipe,
           "streams_with_failed_verdict": res["stats"]["failed"],
           "mc_configs": res["mcs"]}
    return viols, cov


# ---------------------------------------------------------------------------
# C14 (reporters)
# ---------------------------------------------------------------------------

# (universe, HasBefore, HasAfter, NotFoundToo, MaxErr, Truncate, num, opts)
C14_GEN = {
    "quick": [("US1", "TRUE", "TRUE", "FALSE", 1, "FALSE", 120, {"verbose": 0, "show_output": False, "report_time": False}),
              ("US2", "TRUE", "FALSE", "TRUE", 1, "FALSE", 120, {"verbose": 0, "show_output": True, "report_time": True}),
              ("US3", "FALSE", "TRUE", "FALSE", 0, "TRUE", 100, {"verbose": 1, "show_output": False, "report_time": False}),
              ("US1np", "TRUE", "TRUE", "FALSE", 1, "FALSE", 60, {"verbose": 0, "show_output": False, "report_time": False}),
              ("US2", "TRUE", "TRUE", "FALSE", 1, "FALSE", 80, {"verbose": 2, "show_output": True, "report_time": False, "decorate": "basic"}),
              ("US1", "TRUE", "FALSE", "FALSE", 0, "FALSE", 30, {"verbose": 0, "show_output": False, "report_time": False, "decorate": "cdata"}),
              ("US2", "TRUE", "TRUE", "FALSE", 1, "FALSE", 80, {"verbose": 0, "show_output": True, "report_time": False, "logs": True}),
              ("US3", "TRUE", "FALSE", "TRUE", 0, "FALSE", 60, {"verbose": 1, "show_output": False, "report_time": False, "logs": True}),
              ("US2", "FALSE", "TRUE", "FALSE", 2, "FALSE", 120, {"verbose": 0, "show_output": False, "report_time": False, "lazy": True}),
              ("US2np", "TRUE", "FALSE", "FALSE", 1, "FALSE", 80, {"verbose": 0, "show_output": False, "report_time": False, "lazy": True, "twin_features": True}),
              ("US2", "TRUE", "FALSE", "FALSE", 0, "FALSE", 40, {"verbose": 0, "show_output": False, "report_time": False, "twin_features": True})],
    "thorough": [
                 ("US1", "TRUE", "TRUE", "FALSE", 1, "FALSE", 800, {"verbose": 0, "show_output": True, "report_time": False, "decorate": "basic"}),
                 ("US3", "TRUE", "FALSE", "TRUE", 1, "FALSE", 800, {"verbose": 1, "show_output": False, "report_time": False, "decorate": "basic"}),
                 ("US2", "TRUE", "TRUE", "FALSE", 1, "FALSE", 200, {"verbose": 0, "show_output": False, "report_time": False, "decorate": "cdata"}),("US1", "TRUE", "TRUE", "FALSE", 1, "FALSE", 1500, {"verbose": 0, "show_output": False, "report_time": False}),
                 ("US1", "TRUE", "TRUE", "TRUE", 1, "TRUE", 1000, {"verbose": 1, "show_output": True, "report_time": True}),
                 ("US2", "TRUE", "TRUE", "TRUE", 1, "FALSE", 1500, {"verbose": 0, "show_output": True, "report_time": False}),
                 ("US3", "TRUE", "TRUE", "FALSE", 1, "TRUE", 1500, {"verbose": 2, "show_output": False, "report_time": True}),
                 ("US1np", "TRUE", "TRUE", "FALSE", 1, "FALSE", 600, {"verbose": 0, "show_output": False, "report_time": False}),
                 ("US2np", "FALSE", "TRUE", "TRUE", 1, "FALSE", 600, {"verbose": 0, "show_output": True, "report_time": False}),
                 ("US1", "TRUE", "TRUE", "FALSE", 1, "FALSE", 800, {"verbose": 0, "show_output": True, "report_time": False, "logs": True}),
                 ("US3", "TRUE", "TRUE", "TRUE", 1, "FALSE", 800, {"verbose": 1, "show_output": False, "report_time": False, "logs": True}),
                 ("US2", "TRUE", "TRUE", "FALSE", 1, "FALSE", 400, {"verbose": 0, "show_output": True, "report_time": False, "decorate": "basic", "logs": True}),
                 ("US2", "FALSE", "TRUE", "FALSE", 2, "FALSE", 1500, {"verbose": 0, "show_output": False, "report_time": False, "lazy": True}),
                 ("US1", "TRUE", "TRUE", "TRUE", 2, "TRUE", 1000, {"verbose": 1, "show_output": False, "report_time": False, "lazy": True}),
                 ("US2np", "TRUE", "TRUE", "FALSE", 1, "FALSE", 800, {"verbose": 0, "show_output": False, "report_time": False, "lazy": True, "twin_features": True}),
                 ("US2", "TRUE", "TRUE", "FALSE", 1, "FALSE", 400, {"verbose": 0, "show_output": False, "report_time": False, "twin_features": True}),
                 ("US1np", "FALSE", "TRUE", "TRUE", 2, "FALSE", 500, {"verbose": 0, "show_output": False, "report_time": False, "lazy": True})],
}


def c14_judge(group, tag):
    """Replays streams of ONE universe into the four real reporters, parses the documents back and
    lets Trace_Reporters judge the facts.  Returns (verdicts by id, harness records by id)."""
    import report_parsers
    inp = os.path.join(WORK, f"rep_in_{tag}.ndjson")
    outp = os.path.join(WORK, f"rep_out_{tag}.ndjson")
    parsed = os.path.join(WORK, f"rep_parsed_{tag}.ndjson")
    write_ndjson(inp, group)
    run_harness(["replay-reporters", inp, outp])
    recs = read_ndjson(outp)
    tables = report_parsers.step_tables(group[0]["universe"])
    out = []
    recs_all = {}
    for rec in recs:
        facts, info = {}, {}
        for name, fn in report_parsers.PARSERS.items():
            try:
                facts[name], info[name] = fn(rec["outputs"].get(name, ""), tables)
            except Exception as e:  # a parser crash is a malformed document
                facts[name], info[name] = [], {"wellformed": False, "error": str(e)}
        for name in report_parsers.PARSERS:
            info[name].setdefault("wellformed", True)
        info["junit"].setdefault("status_mismatch", 0)
        info["junit"].setdefault("totals_mismatch", 0)
        info["junit"].setdefault("message_mismatch", 0)
        info["json"].setdefault("dup_features", 0)
        lt = info["libtest"]
        for key, dflt in (("unpaired", 0), ("n_ok", 0), ("n_failed", 0), ("n_ignored", 0),
                          ("suite_started", 0), ("suite_result", 0), ("dup_started", 0)):
            lt.setdefault(key, dflt)
        lt["feature_clash"] = report_parsers.feature_clash(rec["universe"], lt.pop("prefix_of", {}))
        if not lt.get("suite"):
            lt["suite"] = {"event": "", "passed": -1, "failed": -1, "ignored": -1}
        panics = {n: rec["panics"].get(n, "") for n in report_parsers.PARSERS}
        out.append({"id": rec["id"], "universe": rec["universe"], "stream": rec["stream"],
                    "facts": facts, "info": info, "panics": panics})
        recs_all[rec["id"]] = rec
    write_ndjson(parsed, out)
    r = tlc("Trace_Reporters.tla", os.path.join(SPEC, "Trace_U.cfg"), workers=1,
            env={"TRACE": parsed}, timeout=3000, tag=f"trrep{tag}", xss=True, heap="6g")
    require_ok(r, "Trace_Reporters")
    vs = tlc_lines(r["out"], "VERDICT")
    if len(vs) != len(out):
        raise ToolError(f"Trace_Reporters judged {len(vs)} of {len(out)} streams")
    return {v["id"]: v for v in vs}, recs_all


def _delay_parsing_finished(stream, sd):
    """Moves ParsingFinished to a later position before run-Finished (in place).  The result is a
    behaviour of SeqGen with LazyParse: GLate may emit ParsingFinished at any point while a feature
    or an attempt is under way, parser errors stay before it, run-Finished stays after it."""
    import random
    kinds = [e["t"] for e in stream]
    if "ParsingFinished" not in kinds or "Started" not in kinds or "Finished" not in kinds:
        return False
    pf, st, fin = kinds.index("ParsingFinished"), kinds.index("Started"), kinds.index("Finished")
    lo = max(pf, st) + 1
    if lo >= fin:
        return False
    rng = random.Random(sd)
    # biased to the tail: half of the moved ones land just before run-Finished
    to = fin - 1 if rng.random() < 0.5 else rng.randint(lo, fin - 1)
    ev = stream.pop(pf)
    stream.insert(to, ev)        # after the pop, index `to` is the old position to + 1
    return True


def check_c14(tier):
    import report_parsers
    t0 = time.time()
    streams = []
    gens = []
    states = 0
    for n, c in enumerate(C14_GEN[tier]):
        cfg = os.path.join(WORK, f"Gen_Reporters_{n}.cfg")
        _cfg(cfg, "Spec", _sum_consts(c[0], c[1], c[2], c[3], c[4], c[5], "FALSE",
                                      logs="TRUE" if c[7].get("logs") else "FALSE",
                                      ambig="TRUE" if c[7].get("ambig", c[7].get("logs")) else "FALSE",
                                      lazy="TRUE" if c[7].get("lazy", c[7].get("logs")) else "FALSE"),
             invs=("Dump",))
        r = tlc("Gen_Summarize.tla", cfg, workers=1,
                simulate={"num": c[6], "depth": 300, "seed": seed() * 1000 + 140 + n},
                timeout=1800, tag=f"genrep{n}")
        require_ok(r, f"Gen_Summarize (reporters) {c[0]}")
        got = tlc_lines(r["out"], "REPLAY")
        late = 0
        for k, g in enumerate(got):
            g["id"] = f"{c[0]}.{n}.{k}"
            g["opts"] = c[7]
            # simulation emits ParsingFinished early almost always (it is enabled from the first
            # step on); SeqGen's GLate allows it at any later point before run-Finished as well, so
            # every other lazy stream gets it moved to a seeded later position of the same behaviour
            if c[7].get("lazy") and k % 2 == 1 and _delay_parsing_finished(g["stream"], seed() * 7919 + n * 1009 + k):
                late += 1
        gens.append({"universe": c[0], "consts": list(c[1:6]), "opts": c[7], "behaviours": len(got),
                     "parsing_finished_moved_later": late,
                     "wall_s": r["wall_s"]})
        states += r.get("states", 0)
        streams.extend(got)
    by_uni = {}
    for s in streams:
        by_uni.setdefault(json.dumps(s["universe"], sort_keys=True), []).append(s)
    verdicts = {}
    recs_all = {}
    for k, (_, group) in enumerate(sorted(by_uni.items())):
        vs, recs = c14_judge(group, str(k))
        verdicts.update(vs)
        recs_all.update(recs)
    violations = []
    for vid, v in verdicts.items():
        for b in v["bad"]:
            rec = recs_all[vid]
            nopath = not rec["universe"][0].get("path", True)
            sig = f"C14:{b[0]}:{b[1]}" + (":pathless" if nopath else "") + \
                (":decorated-" + rec["opts"]["decorate"] if rec["opts"].get("decorate") else "") + \
                (":twin" if rec["opts"].get("twin_features") else "")
            if b[1] == "steps-of-a-skipped-testcase-are-not-listed":
                sig = f"C14:{b[0]}:{b[1]}"      # the shape is recognised exactly; variants do not matter
            violations.append({"sig": sig, "what": f"{b[0]}: {b[1]} (stream {vid})",
                               "replay": {"property": "C14", "reporter": b[0], "rule": b[1],
                                          "detail": v["detail"],
                                          "record": {"universe": rec["universe"], "stream": rec["stream"],
                                                     "opts": rec["opts"], "output": rec["outputs"].get(b[0], "")[:4000]}}})
    nontrivial = sum(1 for s in streams if any(e["k"] in ("StepF", "HookF", "StepSk") for e in s["stream"]))
    sample = recs_all[streams[len(streams) // 2]["id"]]
    cov = {
        "states": states, "transitions": states, "generators": gens,
        "checker_cmd": "tlc -simulate Gen_Summarize.tla ; harness replay-reporters ; lib/report_parsers.py ; "
                       "tlc -workers 1 Trace_Reporters.tla",
        "traces_validated_against_impl": len(verdicts), "reports_parsed": 4 * len(verdicts),
        "evaluations": len(verdicts), "distinct_nontrivial": nontrivial,
        "rule": "sequential streams sampled by TLC from SeqGen.tla over 3 universes (plus path-less variants) and "
                "reporter option sets; non-trivial if the stream has a failed / skipped step or failed hook",
        "samples": [{"stream": [_short(e) for e in sample["stream"]],
                     "libtest_output": sample["outputs"]["libtest"][:1500]}],
    }
    return {"level": "model_checking", "coverage": cov, "violations": violations,
            "assumptions": ["the reports are parsed back by independent parsers (python json, xml.etree, a line grammar)",
                            "facts carry no attempt number (Cucumber JSON merges the attempts of a scenario): bag semantics",
                            "decorated universes append quotes, markup, a CDATA terminator, non-ASCII characters and a backslash to every name and step text",
                            "streams without replayed events after run-Finished"],
            "wall_s": time.time() - t0}
