"""Shared driver utilities: TLC invocation, harness build, caching, evidence."""
import hashlib
import json
import os
import re
import subprocess
import sys
import time

VERIF = os.path.dirname(os.path.dirname(os.path.abspath(__file__)))
REPO = "/repo"
SPEC = os.path.join(VERIF, "spec")
WORK = os.path.join(VERIF, ".work")
HARNESS = os.path.join(VERIF, "harness")
HARNESS_BIN = os.path.join(HARNESS, "target", "debug", "verif-harness")
EVIDENCE = os.path.join(VERIF, "evidence")
REPLAYS = os.path.join(VERIF, "replays")
KNOWN = os.path.join(VERIF, "known_findings.json")


class ToolError(Exception):
    """Anything that is not a verdict about the property (exit code 2)."""


def log(*a):
    print(*a, file=sys.stderr, flush=True)


def seed():
    try:
        return int(os.environ.get("VERIF_SEED", "1"))
    except ValueError:
        return 1


def ensure_dirs():
    for d in (WORK, EVIDENCE, REPLAYS):
        os.makedirs(d, exist_ok=True)


# ----------------------------------------------------------------- hashing --

def _hash_tree(h, root, exts, skip=("target", ".git", ".work")):
    for dirpath, dirnames, filenames in sorted(os.walk(root)):
        dirnames[:] = sorted(d for d in dirnames if d not in skip)
        for fn in sorted(filenames):
            if exts and not fn.endswith(exts):
                continue
            p = os.path.join(dirpath, fn)
            h.update(p.encode())
            try:
                with open(p, "rb") as f:
                    h.update(f.read())
            except OSError:
                pass


def tree_hash():
    """Content hash of everything a check result depends on."""
    h = hashlib.sha256()
    _hash_tree(h, os.path.join(REPO, "src"), (".rs",))
    _hash_tree(h, os.path.join(REPO, "codegen"), (".rs", ".toml"))
    for f in ("Cargo.toml", "Cargo.lock"):
        try:
            h.update(open(os.path.join(REPO, f), "rb").read())
        except OSError:
            pass
    _hash_tree(h, SPEC, (".tla", ".cfg"))
    _hash_tree(h, os.path.join(VERIF, "lib"), (".py",))
    _hash_tree(h, os.path.join(HARNESS, "src"), (".rs",))
    for f in ("check", "known_findings.json", "harness/Cargo.toml"):
        try:
            h.update(open(os.path.join(VERIF, f), "rb").read())
        except OSError:
            pass
    return h.hexdigest()[:20]


def cache_get(engine, tier):
    if os.environ.get("VERIF_NOCACHE"):
        return None
    p = os.path.join(WORK, "cache", f"{engine}-{tier}-{seed()}-{tree_hash()}.json")
    if os.path.exists(p):
        try:
            return json.load(open(p))
        except Exception:
            return None
    return None


def cache_put(engine, tier, result):
    d = os.path.join(WORK, "cache")
    os.makedirs(d, exist_ok=True)
    p = os.path.join(d, f"{engine}-{tier}-{seed()}-{tree_hash()}.json")
    tmp = p + ".tmp%d" % os.getpid()
    json.dump(result, open(tmp, "w"))
    os.replace(tmp, p)


# ------------------------------------------------------------------- build --

_built = False


def build_harness():
    """Rebuilds the harness against /repo's current working tree."""
    global _built
    if _built:
        return
    t0 = time.time()
    env = dict(os.environ, CARGO_NET_OFFLINE="true")
    r = subprocess.run(["cargo", "build", "--offline"], cwd=HARNESS, env=env,
                       stdout=subprocess.PIPE, stderr=subprocess.STDOUT, text=True)
    if r.returncode != 0:
        tail = "\n".join(r.stdout.splitlines()[-40:])
        raise ToolError("harness build failed (does /repo compile with "
                        "--cfg cucumber_verif?):\n" + tail)
    log(f"[build] harness up to date ({time.time() - t0:.1f}s)")
    _built = True


def harness_env(args):
    """Environment for a direct subprocess call of the harness binary (no process arguments)."""
    e = dict(os.environ)
    e["VERIF_ARGS"] = "\t".join(args)
    return e


def run_harness(args, timeout=1800, env=None):
    build_harness()
    e = dict(os.environ)
    if env:
        e.update(env)
    # the sub-command travels in VERIF_ARGS, the process arguments stay empty (see harness main.rs)
    e["VERIF_ARGS"] = "\t".join(args)
    r = subprocess.run([HARNESS_BIN], stdout=subprocess.PIPE,
                       stderr=subprocess.PIPE, text=True, timeout=timeout, env=e)
    if r.returncode != 0:
        raise ToolError(f"harness {' '.join(args[:1])} failed rc={r.returncode}:\n"
                        + r.stderr[-3000:])
    return r.stdout


# --------------------------------------------------------------------- TLC --

TLC_JAR = "/opt/veriftools/tla/tla2tools.jar:/opt/veriftools/tla/CommunityModules-deps.jar"

_re_states = re.compile(r"(\d+) states generated, (\d+) distinct states found")
_re_depth = re.compile(r"depth of the complete state graph search is (\d+)")
_re_sim = re.compile(r"The number of states generated: (\d+)")


def tlc(tla, cfg, workers=4, simulate=None, env=None, timeout=600, tag="tlc",
        xss=False, deque=False, heap=None, coverage=False):
    """Runs TLC; returns dict(out, states, distinct, depth, ok, violated)."""
    meta = os.path.join(WORK, "meta", f"{tag}-{os.getpid()}")
    os.makedirs(meta, exist_ok=True)
    # TLC unpacks its standard modules into java.io.tmpdir: keep that inside the (removed) meta directory
    java_opts = ["-XX:+UseParallelGC", f"-Djava.io.tmpdir={meta}"]
    if xss:
        java_opts.append("-Xss1g")
    if deque:
        java_opts.append("-Dtlc2.tool.queue.IStateQueue=StateDeque")
    if heap:
        java_opts.append(f"-Xmx{heap}")
    cmd = ["java"] + java_opts + ["-cp", TLC_JAR, "tlc2.TLC", "-workers", str(workers),
                                   "-metadir", meta, "-cleanup", "-noGenerateSpecTE"]
    if coverage:
        cmd += ["-coverage", "1"]
    if simulate:
        cmd += ["-simulate", f"num={simulate['num']}", "-depth", str(simulate.get("depth", 200)),
                "-seed", str(simulate.get("seed", seed()))]
    cmd += ["-config", cfg, tla]
    e = dict(os.environ)
    if env:
        e.update(env)
    t0 = time.time()
    try:
        r = subprocess.run(cmd, cwd=SPEC, stdout=subprocess.PIPE, stderr=subprocess.STDOUT,
                           text=True, timeout=timeout, env=e)
    except subprocess.TimeoutExpired:
        raise ToolError(f"TLC timed out after {timeout}s: {tla} {cfg}")
    finally:
        subprocess.run(["rm", "-rf", meta])
    out = r.stdout
    res = {"out": out, "wall_s": round(time.time() - t0, 2), "rc": r.returncode,
           "cmd": "tlc " + " ".join(cmd[cmd.index("-workers"):]).replace(meta, ".work/meta")}
    m = None
    for m in _re_states.finditer(out):
        pass
    if m:
        res["states"], res["distinct"] = int(m.group(1)), int(m.group(2))
    ms = _re_sim.search(out)
    if ms and "states" not in res:
        res["states"] = res["distinct"] = int(ms.group(1))
    md = _re_depth.search(out)
    if md:
        res["depth"] = int(md.group(1))
    res["violated"] = re.findall(r"Invariant (\S+) is violated", out) + \
        re.findall(r"property (\S+) was violated", out)
    res["error"] = ("Error:" in out) and not res["violated"]
    res["ok"] = (r.returncode == 0) and not res["violated"] and not res["error"]
    if "Parsing or semantic analysis failed" in out or "TLC threw an unexpected exception" in out:
        res["error"] = True
    return res


def tlc_lines(out, tag):
    """Extracts the JSON payloads of PrintT(<<tag, ToJson(..)>>) lines."""
    pre = '<<"%s", ' % tag
    res = []
    for line in out.splitlines():
        if line.startswith(pre) and line.endswith(">>"):
            s = line[len(pre):-2]
            try:
                res.append(json.loads(json.loads(s)))
            except Exception as e:
                raise ToolError(f"cannot decode TLC {tag} line: {e}: {line[:200]}")
    return res


def require_ok(res, what):
    if res["error"] or (not res["ok"] and not res["violated"]):
        tail = "\n".join(res["out"].splitlines()[-40:])
        raise ToolError(f"{what}: TLC failed:\n{tail}")


# ---------------------------------------------------------------- findings --

def known_findings():
    try:
        return json.load(open(KNOWN)).get("findings", [])
    except FileNotFoundError:
        return []


# ---------------------------------------------------------------- evidence --

def write_evidence(prop, tier, level, coverage, assumptions, wall_s, violations):
    ensure_dirs()
    ev = {
        "property_id": prop,
        "tier": tier,
        "seed": seed(),
        "level": level,
        "coverage": coverage,
        "assumptions": assumptions,
        "wall_s": round(wall_s, 2),
        "violations": violations,
    }
    p = os.path.join(EVIDENCE, f"{prop}.json")
    tmp = p + ".tmp%d" % os.getpid()
    json.dump(ev, open(tmp, "w"), indent=1, sort_keys=True)
    os.replace(tmp, p)
    return p


def write_replay(prop, name, payload):
    ensure_dirs()
    p = os.path.join(REPLAYS, f"{prop}-{name}.json")
    json.dump(payload, open(p, "w"), indent=1)
    return p


def write_ndjson(path, recs):
    with open(path, "w") as f:
        for r in recs:
            f.write(json.dumps(r) + "\n")


def read_ndjson(path):
    res = []
    with open(path) as f:
        for line in f:
            line = line.strip()
            if line:
                res.append(json.loads(line))
    return res


def sany_all():
    """Syntax/semantic check of every specification module."""
    import glob
    bad = []
    for f in sorted(glob.glob(os.path.join(SPEC, "*.tla"))):
        r = subprocess.run(["java", "-cp", TLC_JAR, "tla2sany.SANY", f], cwd=SPEC,
                           stdout=subprocess.PIPE, stderr=subprocess.STDOUT, text=True)
        if r.returncode != 0 or "Semantic errors" in r.stdout or "Parse Error" in r.stdout \
                or "*** Errors" in r.stdout:
            bad.append((f, r.stdout[-1500:]))
    if bad:
        raise ToolError("SANY errors:\n" + "\n".join(f"{f}:\n{o}" for f, o in bad))
