SPECIFICATION Spec
CONSTANTS
  Cfg <- Retry2
  MaxFail = 2
  IdleYields = TRUE
  SerialExclusive = TRUE
INVARIANTS NoViolation SlotsInv
VIEW VIEW_NoStats
CHECK_DEADLOCK FALSE
