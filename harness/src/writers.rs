//! Replay of event streams into the real writers, with a recording inner
//! writer; and the built-in stats pipelines (C01).

use std::{
    cell::RefCell,
    collections::HashMap,
    fmt::Debug,
    panic::{self, AssertUnwindSafe},
    rc::Rc,
    sync::Arc,
};

use cucumber::{
    Event, World, Writer, cli,
    event::{self, Cucumber, Retries, Source},
    feature::ExpandExamplesError,
    parser, step,
    writer::{
        self, Coloring, Ext as _, FailOnSkipped, Libtest, Normalize, Repeat,
        Stats, Summarize, Tee, Verbosity,
    },
};
use regex::Regex;
use serde_json::{Value, json};

use crate::{evjson, universe::FeatureSpec};

pub type Item<W> = parser::Result<Event<Cucumber<W>>>;

// ------------------------------------------------------------ RWorld ----

#[derive(Debug, Default)]
pub struct RWorld;

impl World for RWorld {
    type Error = std::convert::Infallible;

    async fn new() -> Result<Self, Self::Error> {
        Ok(Self)
    }
}

// ------------------------------------------------------------- RecW ----

/// Recording writer: logs every event and arbitrary write it receives.
#[derive(Clone, Debug, Default)]
pub struct RecW {
    pub log: Rc<RefCell<Vec<Value>>>,
}

impl<W: World> Writer<W> for RecW {
    type Cli = cli::Empty;

    async fn handle_event(&mut self, ev: Item<W>, _: &Self::Cli) {
        self.log.borrow_mut().push(json!({"ev": evjson::describe(&ev)}));
    }
}

impl<W: World, V: AsRef<str>> writer::Arbitrary<W, V> for RecW {
    async fn write(&mut self, val: V) {
        self.log.borrow_mut().push(json!({"write": val.as_ref()}));
    }
}

impl RecW {
    /// Counts received scenario events of kind `k` satisfying `p`.
    fn count(&self, p: impl Fn(&Value) -> bool) -> usize {
        self.log
            .borrow()
            .iter()
            .filter_map(|l| l.get("ev"))
            .filter(|e| p(e))
            .count()
    }
}

fn is_retried_failure(e: &Value) -> bool {
    e["retr"] == true
        && e["left"].as_u64().unwrap_or(0) > 0
        && e["err"] != "notfound"
}

/// `Stats` by plainly counting what was received (replays included).
impl<W: World> Stats<W> for RecW {
    fn passed_steps(&self) -> usize {
        self.count(|e| e["k"] == "StepP")
    }
    fn skipped_steps(&self) -> usize {
        self.count(|e| e["k"] == "StepSk")
    }
    fn failed_steps(&self) -> usize {
        self.count(|e| e["k"] == "StepF" && !is_retried_failure(e))
    }
    fn retried_steps(&self) -> usize {
        self.count(|e| e["k"] == "StepF" && is_retried_failure(e))
    }
    fn parsing_errors(&self) -> usize {
        self.count(|e| e["t"] == "ParseErr")
    }
    fn hook_errors(&self) -> usize {
        self.count(|e| e["k"] == "HookF")
    }
}

impl writer::NonTransforming for RecW {}

// ---------------------------------------------------------- Objects ----

/// Real `gherkin` objects of a universe, wrapped in `Source`s created once
/// (pointer identity as in production).
pub struct Objects {
    pub specs: Vec<FeatureSpec>,
    pub feats: HashMap<String, Source<gherkin::Feature>>,
    pub rules: HashMap<String, Source<gherkin::Rule>>,
    /// scenario name -> (feature name, rule name or "", source, step labels)
    pub scens: HashMap<
        String,
        (String, String, Source<gherkin::Scenario>, Vec<gherkin::Step>),
    >,
    pub nsteps: usize,
    pub nrules: usize,
}

/// Appended to every name and step text when a universe is built "decorated"
/// (C14: quotes, markup, CDATA terminator, non-ASCII).
pub const DECOR: &str = " \"q\" <&> \u{e9}\u{4e16} 'a' \\n";
/// The same plus a CDATA terminator.
pub const DECOR_CDATA: &str = " \"q\" <&> ]]> \u{e9}\u{4e16} 'a' \\n";

/// A name without the decoration.
pub fn plain_name(n: &str) -> String {
    n.strip_suffix(DECOR)
        .or_else(|| n.strip_suffix(DECOR_CDATA))
        .unwrap_or(n)
        .to_owned()
}

fn decorate(f: &mut gherkin::Feature, decor: &str) {
    let d = |s: &mut String| s.push_str(decor);
    d(&mut f.name);
    // decorated universes also carry a doc string and a data table on every
    // step (printed by the terminal / JUnit writers at higher verbosity)
    let steps = |v: &mut Vec<gherkin::Step>| {
        v.iter_mut().for_each(|st| {
            d(&mut st.value);
            st.docstring = Some("doc line 1\n  doc line 2".into());
            st.table = Some(gherkin::Table {
                rows: vec![
                    vec!["a".into(), "bb".into()],
                    vec!["ccc".into(), "d".into()],
                ],
                span: gherkin::Span { start: 0, end: 0 },
                position: gherkin::LineCol { line: 1, col: 1 },
            });
        });
    };
    if let Some(b) = f.background.as_mut() {
        steps(&mut b.steps);
    }
    for s in &mut f.scenarios {
        d(&mut s.name);
        steps(&mut s.steps);
    }
    for r in &mut f.rules {
        d(&mut r.name);
        if let Some(b) = r.background.as_mut() {
            steps(&mut b.steps);
        }
        for s in &mut r.scenarios {
            d(&mut s.name);
            steps(&mut s.steps);
        }
    }
}

impl Objects {
    pub fn new(specs: &[FeatureSpec]) -> Self {
        Self::construct(specs, None, false)
    }

    pub fn new_decorated(specs: &[FeatureSpec], cdata: bool) -> Self {
        Self::construct(specs, Some(if cdata { DECOR_CDATA } else { DECOR }), false)
    }

    /// All features are displayed under the same name (the keys stay their
    /// ids): what tells them apart in a report is their path or, for path-less
    /// features, the ordinal the libtest writer gives them.
    pub fn new_twin_features(specs: &[FeatureSpec]) -> Self {
        Self::construct(specs, None, true)
    }

    /// Every own step of a scenario carries the same text (steps are then told
    /// apart by their position only).
    pub fn new_same_steps(specs: &[FeatureSpec]) -> Self {
        let mut o = Self::construct(specs, None, false);
        for (_, _, sc, steps) in o.scens.values_mut() {
            let mut g: gherkin::Scenario = (**sc).clone();
            let nbg = steps.len() - g.steps.len();
            for st in &mut g.steps {
                st.value = "the button is pressed".to_owned();
            }
            for (k, st) in steps.iter_mut().enumerate() {
                if k >= nbg {
                    st.value = "the button is pressed".to_owned();
                }
            }
            *sc = Source::new(g);
        }
        o
    }

    fn construct(specs: &[FeatureSpec], deco: Option<&str>, twin: bool) -> Self {
        let mut feats = HashMap::new();
        let mut rules = HashMap::new();
        let mut scens = HashMap::new();
        let mut nsteps = 0;
        let mut nrules = 0;
        for spec in specs {
            let mut f = spec.build();
            // keys of the maps below stay the plain names
            if let Some(d) = deco {
                decorate(&mut f, d);
            }
            let fkey = spec.name.clone();
            if twin {
                f.name = "Same name".to_owned();
            }
            let fb: Vec<gherkin::Step> = f
                .background
                .as_ref()
                .map(|b| b.steps.clone())
                .unwrap_or_default();
            for s in &f.scenarios {
                let mut steps = fb.clone();
                steps.extend(s.steps.iter().cloned());
                nsteps += s.steps.len();
                scens.insert(
                    plain_name(&s.name),
                    (
                        fkey.clone(),
                        String::new(),
                        Source::new(s.clone()),
                        steps,
                    ),
                );
            }
            for r in &f.rules {
                nrules += 1;
                let rb: Vec<gherkin::Step> = r
                    .background
                    .as_ref()
                    .map(|b| b.steps.clone())
                    .unwrap_or_default();
                for s in &r.scenarios {
                    let mut steps = fb.clone();
                    steps.extend(rb.iter().cloned());
                    steps.extend(s.steps.iter().cloned());
                    nsteps += s.steps.len();
                    scens.insert(
                        plain_name(&s.name),
                        (
                            fkey.clone(),
                            plain_name(&r.name),
                            Source::new(s.clone()),
                            steps,
                        ),
                    );
                }
                rules.insert(plain_name(&r.name), Source::new(r.clone()));
            }
            feats.insert(fkey.clone(), Source::new(f));
        }
        Self { specs: specs.to_vec(), feats, rules, scens, nsteps, nrules }
    }

    /// Index (1-based) of a step text in the scenario's full step list.
    pub fn step_index(&self, scenario: &str, text: &str, line: u64) -> u64 {
        self.scens.get(scenario).map_or(0, |(_, _, _, steps)| {
            steps
                .iter()
                .position(|s| {
                    s.value == text && s.position.line as u64 == line
                })
                .or_else(|| steps.iter().position(|s| s.value == text))
                .map_or(0, |p| p as u64 + 1)
        })
    }

    fn retries(e: &Value) -> Option<Retries> {
        e["retr"].as_bool().unwrap_or(false).then(|| Retries {
            current: e["cur"].as_u64().unwrap_or(0) as usize,
            left: e["left"].as_u64().unwrap_or(0) as usize,
        })
    }

    /// Builds a real event from its TLA+ record.
    pub fn build<W>(&self, e: &Value, nerr_total: usize) -> Item<W> {
        let t = e["t"].as_str().unwrap_or("");
        let fname = e["f"].as_str().unwrap_or("");
        let rname = e["r"].as_str().unwrap_or("");
        let sname = e["s"].as_str().unwrap_or("");
        let ok = |c: Cucumber<W>| Ok(Event::new(c));
        match t {
            "Started" => ok(Cucumber::Started),
            "Finished" => ok(Cucumber::Finished),
            "ParsingFinished" => ok(Cucumber::ParsingFinished {
                features: self.feats.len(),
                rules: self.nrules,
                scenarios: self.scens.len(),
                steps: self.nsteps,
                parser_errors: nerr_total,
            }),
            "ParseErr" => {
                let n = e["i"].as_u64().unwrap_or(0) as usize;
                if n % 2 == 0 {
                    // a feature file that cannot be read
                    let err = gherkin::Feature::parse_path(
                        format!("/nonexistent/perr{n}.feature"),
                        gherkin::GherkinEnv::default(),
                    )
                    .expect_err("harness: unreadable path parsed");
                    return Err(parser::Error::Parsing(Arc::new(err)));
                }
                Err(parser::Error::ExampleExpansion(Arc::new(
                    ExpandExamplesError {
                        pos: gherkin::LineCol { line: n, col: 1 },
                        name: format!("perr{n}"),
                        path: None,
                    },
                )))
            }
            "FeatS" => ok(Cucumber::feature_started(self.feats[fname].clone())),
            "FeatF" => {
                ok(Cucumber::feature_finished(self.feats[fname].clone()))
            }
            "RuleS" => ok(Cucumber::rule_started(
                self.feats[fname].clone(),
                self.rules[rname].clone(),
            )),
            "RuleF" => ok(Cucumber::rule_finished(
                self.feats[fname].clone(),
                self.rules[rname].clone(),
            )),
            "Sc" => {
                let (_, _, sc, steps) = &self.scens[sname];
                let rule =
                    (!rname.is_empty()).then(|| self.rules[rname].clone());
                let k = e["k"].as_str().unwrap_or("");
                let hook = || match e["h"].as_str() {
                    Some("a") => event::HookType::After,
                    _ => event::HookType::Before,
                };
                let i = e["i"].as_u64().unwrap_or(0) as usize;
                let step = || Source::new(steps[i - 1].clone());
                let is_bg =
                    || i <= steps.len().saturating_sub(sc.steps.len());
                let msg = || {
                    format!(
                        "P|{sname}|{}|{k}{}{i}",
                        e["cur"].as_u64().unwrap_or(0),
                        e["h"].as_str().unwrap_or(""),
                    )
                };
                // capture locations as the runner would deliver them, from a
                // regex with a NESTED group that ends before the enclosing one
                // (the terminal writer re-assembles the step text from them)
                let caps = || {
                    let re = Regex::new(r"^((\S+) \S+) (\d+)").unwrap();
                    let mut locs = re.capture_locations();
                    if i >= 1 && i <= steps.len() {
                        drop(re.captures_read(&mut locs, &steps[i - 1].value));
                    }
                    locs
                };
                let sev = |bg: bool, st, ev| {
                    if bg {
                        event::Scenario::Background(st, ev)
                    } else {
                        event::Scenario::Step(st, ev)
                    }
                };
                let ev: event::Scenario<W> = match k {
                    "Started" => event::Scenario::Started,
                    "Finished" => event::Scenario::Finished,
                    // (formatted tracing events end with a newline)
                    "Log" => event::Scenario::Log(format!("{}\n", msg())),
                    "HookS" => event::Scenario::hook_started(hook()),
                    "HookP" => event::Scenario::hook_passed(hook()),
                    "HookF" => event::Scenario::hook_failed(
                        hook(),
                        None,
                        Arc::new(msg()),
                    ),
                    "StepS" => sev(is_bg(), step(), event::Step::Started),
                    "StepP" => sev(
                        is_bg(),
                        step(),
                        event::Step::Passed(caps(), None),
                    ),
                    "StepSk" => sev(is_bg(), step(), event::Step::Skipped),
                    "StepF" => {
                        let err = match e["err"].as_str() {
                            Some("notfound") => event::StepError::NotFound,
                            Some("ambig") => event::StepError::AmbiguousMatch(
                                step::AmbiguousMatchError {
                                    possible_matches: vec![
                                        (Regex::new("a").unwrap().into(), None),
                                        (Regex::new("b").unwrap().into(), None),
                                    ],
                                },
                            ),
                            _ => event::StepError::Panic(Arc::new(msg())),
                        };
                        sev(
                            is_bg(),
                            step(),
                            event::Step::Failed(Some(caps()), None, None, err),
                        )
                    }
                    other => panic!("harness: unknown scenario event {other}"),
                };
                ok(Cucumber::scenario(
                    self.feats[fname].clone(),
                    rule,
                    sc.clone(),
                    ev.with_retries(Self::retries(e)),
                ))
            }
            other => panic!("harness: unknown event {other}"),
        }
    }

    /// Projects a harness-side description into the TLA+ record shape.
    pub fn to_tla(&self, d: &Value) -> Value {
        let t = d["t"].as_str().unwrap_or("");
        let s = |k: &str| d.get(k).and_then(Value::as_str).unwrap_or("");
        let mut i = 0;
        if t == "ParseErr" {
            let re = Regex::new(r"<perr(\d+)>").unwrap();
            i = re
                .captures(s("msg"))
                .and_then(|c| c[1].parse().ok())
                .unwrap_or(0);
        }
        let mut neg = false;
        if t == "Sc" && d.get("step").is_some() {
            i = self.step_index(
                &plain_name(s("s")),
                s("step"),
                d["line"].as_u64().unwrap_or(0),
            );
            // The TLA+ records have no Background/Step flag: it follows from
            // the step's position.  An event whose kind contradicts that
            // position is projected with a negated index, so it can never
            // equal the expected event.
            if let Some((_, _, sc, steps)) = self.scens.get(&plain_name(s("s"))) {
                let nbg = steps.len().saturating_sub(sc.steps.len()) as u64;
                let declared_bg = i >= 1 && i <= nbg;
                if i >= 1 && d["bg"].as_bool() != Some(declared_bg) {
                    neg = true;
                }
            }
        }
        json!({
            "t": t, "f": plain_name(s("f")), "r": plain_name(s("r")), "s": plain_name(s("s")), "k": s("k"),
            "h": s("h"), "i": if neg { -(i as i64) } else { i as i64 }, "err": s("err"),
            "cur": d.get("cur").and_then(Value::as_u64).unwrap_or(0),
            "left": d.get("left").and_then(Value::as_u64).unwrap_or(0),
            "retr": d.get("retr").and_then(Value::as_bool).unwrap_or(false),
        })
    }
}

// -------------------------------------------------------- pipelines ----

fn stats_json<W, Wr: Stats<W>>(wr: &Wr) -> Value {
    json!({
        "failed": wr.execution_has_failed(),
        "passed_steps": wr.passed_steps(),
        "skipped_steps": wr.skipped_steps(),
        "failed_steps": wr.failed_steps(),
        "retried_steps": wr.retried_steps(),
        "parsing_errors": wr.parsing_errors(),
        "hook_errors": wr.hook_errors(),
    })
}

fn feed<W, Wr: Writer<W>>(wr: &mut Wr, cli: &Wr::Cli, items: &[Item<W>])
where
    W: World,
{
    futures::executor::block_on(async {
        for it in items {
            wr.handle_event(it.clone(), cli).await;
        }
    });
}

/// A `Runner` that replays a recorded event stream: lets a pipeline be driven
/// by the REAL `Cucumber::run` / `run_and_exit` event loop.
struct ReplayRunner<W>(Vec<Item<W>>);

impl<W: World> cucumber::Runner<W> for ReplayRunner<W> {
    type Cli = cli::Empty;
    type EventStream = futures::stream::LocalBoxStream<'static, Item<W>>;

    fn run<S>(self, _: S, _: cli::Empty) -> Self::EventStream
    where
        S: futures::Stream<Item = parser::Result<gherkin::Feature>> + 'static,
    {
        use futures::StreamExt as _;
        futures::stream::iter(self.0).boxed_local()
    }
}

/// A `Parser` yielding nothing (the replayed stream carries everything).
struct NoFeatures;

impl cucumber::Parser<()> for NoFeatures {
    type Cli = cli::Empty;
    type Output = futures::stream::Empty<parser::Result<gherkin::Feature>>;

    fn parse(self, (): (), _: cli::Empty) -> Self::Output {
        futures::stream::empty()
    }
}

fn app<W, Wr>(
    wr: Wr,
    cli: &Wr::Cli,
    items: &[Item<W>],
) -> cucumber::Cucumber<W, NoFeatures, (), ReplayRunner<W>, Wr, cli::Empty>
where
    W: World,
    Wr: Writer<W> + writer::Normalized,
    Wr::Cli: Clone,
{
    cucumber::Cucumber::<W, _, (), _, _, cli::Empty>::custom(
        NoFeatures,
        ReplayRunner(items.to_vec()),
        wr,
    )
        .with_cli(cli::Opts {
            re_filter: None,
            tags_filter: None,
            parser: cli::Empty,
            runner: cli::Empty,
            writer: cli.clone(),
            custom: cli::Empty,
        })
}

type App<W, Wr> =
    cucumber::Cucumber<W, NoFeatures, (), ReplayRunner<W>, Wr, cli::Empty>;

/// Drives two instances of the application through the real `Cucumber` event
/// loop: `run()` hands the writer back (statistics, `execution_has_failed`),
/// `run_and_exit()` shows whether the process would exit with a failure.
fn finish<W, Wr>(mkapp: &dyn Fn() -> App<W, Wr>) -> Value
where
    W: World,
    Wr: Writer<W> + Stats<W> + writer::Normalized,
{
    let wr = futures::executor::block_on(mkapp().run(()));
    let mut v = stats_json(&wr);
    let prev = panic::take_hook();
    panic::set_hook(Box::new(|_| {}));
    let r = panic::catch_unwind(AssertUnwindSafe(|| {
        futures::executor::block_on(mkapp().run_and_exit(()));
    }));
    panic::set_hook(prev);
    v["exit_failed"] = json!(r.is_err());
    v
}

/// The wrappers are put on with the `Cucumber` builder methods
/// (`fail_on_skipped()`, `repeat_failed()`), as an application does.
fn wrap_and_run<W, Wr>(
    mk: &dyn Fn() -> Wr,
    cli: &Wr::Cli,
    fos: bool,
    rep: bool,
    items: &[Item<W>],
) -> Value
where
    W: World,
    Wr: Writer<W> + Stats<W> + writer::NonTransforming + writer::Normalized,
    Wr::Cli: Clone,
{
    match (fos, rep) {
        (false, false) => finish(&|| app(mk(), cli, items)),
        (true, false) => finish(&|| app(mk(), cli, items).fail_on_skipped()),
        (false, true) => finish(&|| app(mk(), cli, items).repeat_failed()),
        (true, true) => finish(&|| {
            app(mk(), cli, items).repeat_failed().fail_on_skipped()
        }),
    }
}

fn sn<W: World>() -> Summarize<Normalize<W, RecW>> {
    RecW::default().normalized().summarized()
}

fn lt<W: World + Debug>() -> Normalize<W, Libtest<W, Vec<u8>>> {
    Libtest::new(Vec::new())
}

/// Runs one named pipeline over the items.
pub fn run_pipeline<W: World + Debug + 'static>(
    name: &str,
    items: &[Item<W>],
) -> Value {
    let mut base = name;
    let mut fos = false;
    let mut rep = false;
    loop {
        if let Some(r) = base.strip_prefix("fos:") {
            fos = true;
            base = r;
        } else if let Some(r) = base.strip_prefix("rep:") {
            rep = true;
            base = r;
        } else {
            break;
        }
    }
    let ltcli = writer::libtest::Cli::default;
    let bcli = || writer::basic::Cli { verbose: 0, color: Coloring::Never };
    match base {
        "sn" => wrap_and_run(&sn::<W>, &cli::Empty, fos, rep, items),
        "snb" => wrap_and_run(
            &|| {
                writer::Basic::raw(
                    Vec::new(),
                    Coloring::Never,
                    Verbosity::Default,
                )
                .normalized::<W>()
                .summarized()
            },
            &bcli(),
            fos,
            rep,
            items,
        ),
        "lt" => wrap_and_run(&lt::<W>, &ltcli(), fos, rep, items),
        // the statistics must pass through `AssertNormalized` unchanged
        "asn" => wrap_and_run(
            &|| writer::AssertNormalized::new(sn::<W>()),
            &cli::Empty,
            fos,
            rep,
            items,
        ),
        "tee" => wrap_and_run(
            &|| Tee::new(sn::<W>(), lt::<W>()),
            &cli::Compose { left: cli::Empty, right: ltcli() },
            fos,
            rep,
            items,
        ),
        // the statistics-discarding writer on the LEFT, the real one on the right
        "tdl" => wrap_and_run(
            &|| {
                Tee::new(
                    writer::discard::Stats::wrap(
                        writer::AssertNormalized::new(RecW::default()),
                    ),
                    sn::<W>(),
                )
            },
            &cli::Compose { left: cli::Empty, right: cli::Empty },
            fos,
            rep,
            items,
        ),
        "orl" | "orr" => {
            let left = base == "orl";
            wrap_and_run(
                &|| {
                    writer::Or::new(
                        sn::<W>(),
                        lt::<W>(),
                        move |_: &Item<W>,
                              _: &cli::Compose<
                            cli::Empty,
                            writer::libtest::Cli,
                        >| left,
                    )
                },
                &cli::Compose { left: cli::Empty, right: ltcli() },
                fos,
                rep,
                items,
            )
        }
        other => json!({"error": format!("unknown pipeline {other}")}),
    }
}

/// Feeds the items into every named pipeline (C01, impl -> spec).
pub fn feed_pipelines<W: World + Debug + 'static>(
    names: &[String],
    items: Vec<Item<W>>,
) -> Vec<Value> {
    names
        .iter()
        .map(|n| {
            let r = panic::catch_unwind(AssertUnwindSafe(|| {
                run_pipeline(n, &items)
            }));
            let mut v = r.unwrap_or_else(|e| {
                json!({"writer_panic": format!("{:?}",
                        evjson::payload(&Arc::from(e)))})
            });
            v["pipeline"] = json!(n);
            v["fos"] = json!(n.contains("fos:"));
            if v.get("failed").is_none() {
                v["failed"] = json!(false);
            }
            if v.get("writer_panic").is_none() {
                v["writer_panic"] = json!("");
            }
            if v.get("exit_failed").is_none() {
                v["exit_failed"] = json!(false);
            }
            v
        })
        .collect()
}

// ------------------------------------------------- replay: normalize ----

/// Replays one stream through the real `Normalize`, returning the deltas
/// forwarded by each `handle_event` call (TLA+ record shape).
pub fn replay_normalize(objs: &Objects, stream: &[Value]) -> Value {
    let rec = RecW::default();
    let log = Rc::clone(&rec.log);
    let mut wr = Normalize::<RWorld, _>::new(rec);
    let nerr = stream.iter().filter(|e| e["t"] == "ParseErr").count();
    let mut outs: Vec<Value> = Vec::new();
    let mut panicked: Option<String> = None;
    for e in stream {
        let item: Item<RWorld> = objs.build(e, nerr);
        let r = panic::catch_unwind(AssertUnwindSafe(|| {
            futures::executor::block_on(wr.handle_event(item, &cli::Empty));
        }));
        let delta: Vec<Value> = log
            .borrow_mut()
            .drain(..)
            .filter_map(|l| l.get("ev").map(|d| objs.to_tla(d)))
            .collect();
        outs.push(Value::Array(delta));
        if let Err(p) = r {
            panicked =
                Some(format!("{:?}", evjson::payload(&Arc::from(p))));
            break;
        }
    }
    json!({"outs": outs, "panic": panicked.unwrap_or_default()})
}

// ------------------------------------------------- replay: summarize ----

fn build_items(objs: &Objects, stream: &[Value]) -> Vec<Item<RWorld>> {
    let nerr = stream.iter().filter(|e| e["t"] == "ParseErr").count();
    stream.iter().map(|e| objs.build(e, nerr)).collect()
}

/// Replays one sequential stream through the real `Summarize<RecW>` and the
/// named stats pipelines.
pub fn replay_summarize(
    objs: &Objects,
    stream: &[Value],
    pipelines: &[String],
) -> Value {
    let items = build_items(objs, stream);
    let rec = RecW::default();
    let log = Rc::clone(&rec.log);
    let mut wr = Summarize::new(rec);
    let r = panic::catch_unwind(AssertUnwindSafe(|| {
        feed::<RWorld, _>(&mut wr, &cli::Empty, &items);
    }));
    let panic_msg = r
        .err()
        .map(|p| format!("{:?}", evjson::payload(&Arc::from(p))))
        .unwrap_or_default();
    let sc = *wr.scenarios_stats();
    let st = *wr.steps_stats();
    let actual = json!({
        "passed_steps": Stats::<RWorld>::passed_steps(&wr),
        "skipped_steps": Stats::<RWorld>::skipped_steps(&wr),
        "failed_steps": Stats::<RWorld>::failed_steps(&wr),
        "retried_steps": Stats::<RWorld>::retried_steps(&wr),
        "parsing_errors": Stats::<RWorld>::parsing_errors(&wr),
        "hook_errors": Stats::<RWorld>::hook_errors(&wr),
        "failed": Stats::<RWorld>::execution_has_failed(&wr),
        "sc_passed": sc.passed, "sc_skipped": sc.skipped,
        "sc_failed": sc.failed, "sc_retried": sc.retried,
        "st_passed": st.passed, "st_skipped": st.skipped,
        "st_failed": st.failed, "st_retried": st.retried,
        "features": 0, "rules": 0,
    });
    let mut actual = actual;
    // features / rules are only visible in the summary text
    let summary: String = log
        .borrow()
        .iter()
        .filter_map(|l| l.get("write").and_then(Value::as_str).map(str::to_owned))
        .collect::<Vec<_>>()
        .join("\n");
    let num = |re: &str| {
        Regex::new(re)
            .unwrap()
            .captures(&summary)
            .and_then(|c| c[1].parse::<u64>().ok())
            .unwrap_or(0)
    };
    actual["features"] = json!(num(r"(\d+) features?"));
    actual["rules"] = json!(num(r"(\d+) rules?"));
    // every number the summary text states (omitted parts are zeros)
    let line_of = |word: &str| {
        summary
            .lines()
            .find(|l| {
                Regex::new(&format!(r"^\d+ {word}s?\b")).unwrap().is_match(l)
            })
            .unwrap_or("")
            .to_owned()
    };
    let in_line = |line: &str, re: &str| {
        Regex::new(re)
            .unwrap()
            .captures(line)
            .and_then(|c| c[1].parse::<u64>().ok())
            .unwrap_or(0)
    };
    let (scl, stl) = (line_of("scenario"), line_of("step"));
    let text = json!({
        "present": !summary.is_empty(),
        "features": num(r"(\d+) features?"),
        "rules": num(r"(\d+) rules?"),
        "sc_total": in_line(&scl, r"^(\d+) scenario"),
        "sc_passed": in_line(&scl, r"(\d+) passed"),
        "sc_skipped": in_line(&scl, r"(\d+) skipped"),
        "sc_failed": in_line(&scl, r"(\d+) failed"),
        "sc_retried": in_line(&scl, r"(\d+) retr"),
        "st_total": in_line(&stl, r"^(\d+) step"),
        "st_passed": in_line(&stl, r"(\d+) passed"),
        "st_skipped": in_line(&stl, r"(\d+) skipped"),
        "st_failed": in_line(&stl, r"(\d+) failed"),
        "st_retried": in_line(&stl, r"(\d+) retr"),
        "parsing_errors": num(r"(\d+) parsing errors?"),
        "hook_errors": num(r"(\d+) hook errors?"),
    });
    let logk: Vec<Value> = log
        .borrow()
        .iter()
        .map(|l| {
            l.get("ev").map_or_else(
                || json!("write"),
                |e| json!(format!("ev:{}", e["t"].as_str().unwrap_or(""))),
            )
        })
        .collect();
    let verdicts = feed_pipelines::<RWorld>(pipelines, items);
    json!({"actual": actual, "log": logk, "verdicts": verdicts,
           "panic": panic_msg, "summary": summary, "text": text})
}

// ------------------------------------------------- replay: combinators ----

fn leaf_log(objs: &Objects, log: &Rc<RefCell<Vec<Value>>>) -> Value {
    Value::Array(
        log.borrow()
            .iter()
            .map(|l| match l.get("ev") {
                Some(d) => objs.to_tla(d),
                None => json!({"t":"Write","f":"","r":"","s":"","k":"","h":"",
                               "i":0,"err":"","cur":0,"left":0,"retr":false}),
            })
            .collect(),
    )
}

fn stats6<W, Wr: Stats<W>>(wr: &Wr) -> Value {
    json!({"passed": wr.passed_steps(), "skipped": wr.skipped_steps(),
           "failed": wr.failed_steps(), "retried": wr.retried_steps(),
           "perr": wr.parsing_errors(), "herr": wr.hook_errors()})
}

enum In {
    Ev(Item<RWorld>),
    Write,
}

fn drive_comb<Wr>(wr: &mut Wr, cli: &Wr::Cli, inp: &[In], writes: bool)
where
    Wr: Writer<RWorld> + writer::Arbitrary<RWorld, String>,
{
    futures::executor::block_on(async {
        for x in inp {
            match x {
                In::Ev(it) => wr.handle_event(it.clone(), cli).await,
                In::Write if writes => wr.write("w".to_owned()).await,
                In::Write => {}
            }
        }
    });
}

fn drive_with_writes<Wr>(wr: &mut Wr, cli: &Wr::Cli, inp: &[In])
where
    Wr: Writer<RWorld> + writer::Arbitrary<RWorld, String>,
{
    drive_comb(wr, cli, inp, true);
}

fn drive_events<Wr: Writer<RWorld>>(wr: &mut Wr, cli: &Wr::Cli, inp: &[In]) {
    futures::executor::block_on(async {
        for x in inp {
            if let In::Ev(it) = x {
                wr.handle_event(it.clone(), cli).await;
            }
        }
    });
}

/// Runs every nesting of Combinators.tla over one input.
pub fn replay_comb(objs: &Objects, inp: &[Value]) -> Value {
    let nerr = inp.iter().filter(|e| e["t"] == "ParseErr").count();
    let input: Vec<In> = inp
        .iter()
        .map(|e| {
            if e["t"] == "Write" {
                In::Write
            } else {
                In::Ev(objs.build(e, nerr))
            }
        })
        .collect();
    let mut results = serde_json::Map::new();
    let mut panics = String::new();
    let e = &cli::Empty;
    let ee = &cli::Compose { left: cli::Empty, right: cli::Empty };
    macro_rules! one {
        ($name:expr, $mk:expr) => {{
            let leaf = RecW::default();
            let log = Rc::clone(&leaf.log);
            let r = panic::catch_unwind(AssertUnwindSafe(|| {
                let mut wr = $mk(leaf);
                drive_comb(&mut wr, e, &input, true);
                stats6::<RWorld, _>(&wr)
            }));
            match r {
                Ok(st) => {
                    results.insert(
                        $name.into(),
                        json!({"leaves": [leaf_log(objs, &log)], "stats": st}),
                    );
                }
                Err(p) => {
                    panics.push_str(&format!(
                        "{}: {:?}; ",
                        $name,
                        evjson::payload(&Arc::from(p))
                    ));
                    results.insert(
                        $name.into(),
                        json!({"leaves": [[]], "stats": {}}),
                    );
                }
            }
        }};
    }
    one!("fos", |l: RecW| FailOnSkipped::new(l));
    one!("fos_custom", |l: RecW| FailOnSkipped::with(
        l,
        |_: &gherkin::Feature,
         _: Option<&gherkin::Rule>,
         s: &gherkin::Scenario| s.name == "S1"
    ));
    one!("rep_skipped", |l: RecW| Repeat::<RWorld, _>::skipped(l));
    one!("rep_failed", |l: RecW| Repeat::<RWorld, _>::failed(l));
    one!("rep_custom", |l: RecW| Repeat::<RWorld, _, _>::new(
        l,
        |ev: &Item<RWorld>| {
            use cucumber::event::{Feature, Rule};
            matches!(
                ev.as_deref(),
                Ok(Cucumber::Feature(
                    _,
                    Feature::Started | Feature::Rule(_, Rule::Started)
                ))
            )
        }
    ));
    one!("fos_rep_failed", |l: RecW| FailOnSkipped::new(
        Repeat::<RWorld, _>::failed(l)
    ));
    macro_rules! two {
        ($name:expr, $mk:expr, $drive:ident) => {{
            let (a, b) = (RecW::default(), RecW::default());
            let (la, lb) = (Rc::clone(&a.log), Rc::clone(&b.log));
            let r = panic::catch_unwind(AssertUnwindSafe(|| {
                let mut wr = $mk(a, b);
                $drive(&mut wr, ee, &input);
                stats6::<RWorld, _>(&wr)
            }));
            match r {
                Ok(st) => {
                    results.insert(
                        $name.into(),
                        json!({"leaves": [leaf_log(objs, &la), leaf_log(objs, &lb)],
                               "stats": st}),
                    );
                }
                Err(p) => {
                    panics.push_str(&format!(
                        "{}: {:?}; ",
                        $name,
                        evjson::payload(&Arc::from(p))
                    ));
                    results.insert(
                        $name.into(),
                        json!({"leaves": [[], []], "stats": {}}),
                    );
                }
            }
        }};
    }
    two!(
        "tee",
        |a: RecW, b: RecW| Tee::new(a, writer::discard::Stats::wrap(b)),
        drive_with_writes
    );
    two!(
        "tee_left_discarded",
        |a: RecW, b: RecW| Tee::new(writer::discard::Stats::wrap(a), b),
        drive_with_writes
    );
    two!(
        "tee_rep",
        |a: RecW, b: RecW| Tee::new(
            Repeat::<RWorld, _>::failed(a),
            Repeat::<RWorld, _>::skipped(b)
        ),
        drive_with_writes
    );
    two!(
        "tee_discard",
        |a: RecW, b: RecW| Tee::new(writer::discard::Arbitrary::wrap(a), b),
        drive_with_writes
    );
    let or_left = |ev: &Item<RWorld>,
                   _: &cli::Compose<cli::Empty, cli::Empty>| {
        let d = evjson::describe(ev);
        d["t"] == "ParseErr" || (d["t"] == "Sc" && d["s"] == "S1")
    };
    two!(
        "or",
        |a: RecW, b: RecW| writer::Or::new(a, b, or_left),
        drive_events
    );
    two!(
        "or_discard_stats",
        |a: RecW, b: RecW| writer::Or::new(
            a,
            writer::discard::Stats::wrap(b),
            or_left
        ),
        drive_events
    );
    json!({"results": results, "panic": panics})
}

// ------------------------------------------------- replay: reporters ----

/// Shared in-memory output for writers that do not expose theirs.
#[derive(Clone, Debug, Default)]
pub struct SharedBuf(pub Rc<RefCell<Vec<u8>>>);

impl std::io::Write for SharedBuf {
    fn write(&mut self, buf: &[u8]) -> std::io::Result<usize> {
        self.0.borrow_mut().extend_from_slice(buf);
        Ok(buf.len())
    }

    fn flush(&mut self) -> std::io::Result<()> {
        Ok(())
    }
}

impl SharedBuf {
    fn text(&self) -> String {
        String::from_utf8_lossy(&self.0.borrow()).into_owned()
    }
}

/// Replays one sequential stream through the four built-in reporters (each
/// behind `Normalize`, as their constructors build them).
pub fn replay_reporters(objs: &Objects, stream: &[Value], opts: &Value) -> Value {
    let items = build_items(objs, stream);
    let mut outputs = serde_json::Map::new();
    let mut panics = serde_json::Map::new();
    let mut run = |name: &str, f: &mut dyn FnMut() -> String| {
        match panic::catch_unwind(AssertUnwindSafe(|| f())) {
            Ok(s) => {
                outputs.insert(name.into(), json!(s));
            }
            Err(p) => {
                outputs.insert(name.into(), json!(""));
                panics.insert(
                    name.into(),
                    json!(format!("{:?}", evjson::payload(&Arc::from(p)))),
                );
            }
        }
    };
    let verbose = opts["verbose"].as_u64().unwrap_or(0) as u8;
    run("basic", &mut || {
        let buf = SharedBuf::default();
        let mut wr = writer::Basic::new::<RWorld>(
            buf.clone(),
            Coloring::Never,
            Verbosity::from(verbose),
        );
        feed(
            &mut wr,
            &writer::basic::Cli { verbose: 0, color: Coloring::Never },
            &items,
        );
        buf.text()
    });
    run("libtest", &mut || {
        let buf = SharedBuf::default();
        let mut wr = Libtest::<RWorld, _>::new(buf.clone());
        let cli = writer::libtest::Cli {
            format: None,
            show_output: opts["show_output"] == true,
            report_time: (opts["report_time"] == true)
                .then_some(writer::libtest::ReportTime::Plain),
            nightly: None,
        };
        feed(&mut wr, &cli, &items);
        buf.text()
    });
    run("json", &mut || {
        let buf = SharedBuf::default();
        let mut wr = writer::Json::new::<RWorld>(buf.clone());
        feed(&mut wr, &cli::Empty, &items);
        buf.text()
    });
    run("junit", &mut || {
        let buf = SharedBuf::default();
        let mut wr =
            writer::JUnit::<RWorld, _>::new(buf.clone(), Verbosity::from(verbose));
        feed(&mut wr, &writer::junit::Cli { verbose: None }, &items);
        buf.text()
    });
    json!({"outputs": outputs, "panics": panics})
}
