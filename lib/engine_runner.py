"""runner-trace engine: C01..C10 (and the runner half of C18).

1. MC: Runner.tla (reference executor design) is model-checked against the
   property monitor RunnerObs.tla for small constants (MC_Runner*.cfg).
2. Conformance: seeded cases drive the REAL runner::Basic through the gate
   controlled test double (harness `drive`); the recorded linearization points
   are validated by TLC against the same monitor (Trace_Runner.tla).
One engine run serves all runner properties; results are cached by content
hash of /repo + /verif sources, tier and seed."""
import collections
import json
import os
import subprocess
import time
from concurrent.futures import ThreadPoolExecutor

import gen_cases
from common import (HARNESS_BIN, SPEC, WORK, ToolError, build_harness, cache_get, cache_put, harness_env, log,
                    read_ndjson, require_ok, seed, tlc, tlc_lines, write_ndjson)

PROPS = ["C01", "C02", "C03", "C04", "C05", "C06", "C07", "C08", "C09", "C10"]
NCASES = {"quick": 400, "thorough": 6000}
SHARDS = {"quick": 2, "thorough": 10}


def drive_and_validate(cases, tag):
    """Drives the cases on the real runner and validates the trace with TLC.
    Returns (summaries by case id, trace path, number of records)."""
    build_harness()
    cin = os.path.join(WORK, f"{tag}_cases.ndjson")
    tout = os.path.join(WORK, f"{tag}_trace.ndjson")
    write_ndjson(cin, cases)
    r = subprocess.run([HARNESS_BIN], env=harness_env(["drive", cin, tout]), stdout=subprocess.PIPE,
                       stderr=subprocess.PIPE, text=True, timeout=3600)
    if r.returncode != 0:
        raise ToolError(f"harness drive failed rc={r.returncode}: {r.stderr[-2000:]}")
    nrec = sum(1 for _ in open(tout))
    t = tlc("Trace_Runner.tla", os.path.join(SPEC, "Trace_Runner.cfg"), workers=1,
            env={"TRACE": tout}, timeout=3600, tag=tag, xss=True, heap="4g")
    require_ok(t, "Trace_Runner")
    summ = tlc_lines(t["out"], "CASE")
    ids = [c["id"] for c in cases]
    got = [s["case"] for s in summ]
    if got != ids[:len(got)] or len(got) < len(ids):
        # the harness stops early only after several hung cases
        if len(got) < len(ids) and got == ids[:len(got)] and r.stderr.find("too many hung") >= 0:
            pass
        else:
            raise ToolError(f"Trace_Runner judged {len(got)} of {len(ids)} cases")
    return {s["case"]: s for s in summ}, tout, nrec


def _case_features(case):
    """Python-side facts used only for coverage accounting (never for verdicts)."""
    e = case["expect"]
    scen = e["scen"]
    return {
        "lazy": any(p.get("pending", 0) > 0 for p in case["parser"]),
        "perr": any(p["item"] == "err" for p in case["parser"]),
        "rules": len(e["rules"]) > 0,
        "serial": any(s["serial"] for s in scen.values()),
        "mixed_serial": any(s["serial"] for s in scen.values()) and any(not s["serial"] for s in scen.values()),
        "retry": any(s["budget"] > 0 for s in scen.values()),
        "delay": any(s["delay_us"] > 0 for s in scen.values()),
        "fail_fast": e["fail_fast"],
        "hooks": e["before"] or e["after"],
        "limit_small": 0 < e["limit"] <= 3,
        "nscen": len(scen),
        "twin": e["twin"],
    }


NONTRIVIAL = {
    "C01": ("the run contains a failed attempt, a parser error or a skipped step (the verdict could go either way)",
            lambda f, s: s["stats"]["panics"] > 0 or f["perr"] or "skipped" in s["outcomes"].values()),
    "C02": ("at least one attempt ran and one of: a hook is set, a step was skipped or failed, a retry happened",
            lambda f, s: f["nscen"] > 0 and (f["hooks"] or s["stats"]["panics"] > 0 or s["stats"]["retried"] > 0
                                             or "skipped" in s["outcomes"].values())),
    "C03": ("the case has a rule, a parser error, a lazily delivered item or an empty feature",
            lambda f, s: f["rules"] or f["perr"] or f["lazy"]),
    "C04": ("some parser item returned Pending before it was delivered",
            lambda f, s: f["lazy"]),
    "C05": ("at least one retry attempt was started",
            lambda f, s: s["stats"]["retried"] > 0),
    "C06": ("the concurrency limit (1..3) was reached at least once",
            lambda f, s: f["limit_small"] and s["stats"]["fullSlots"] > 0),
    "C07": ("a serial attempt ran in a case that also has concurrent scenarios",
            lambda f, s: f["mixed_serial"] and s["stats"]["serialIsolated"] > 0),
    "C08": ("fail-fast is on and a final failure or parser error occurred, or the case is a fail-fast twin",
            lambda f, s: f["fail_fast"] and (f["twin"] or f["perr"] or "failed" in s["outcomes"].values())),
    "C09": ("a hook is set and at least one attempt ran",
            lambda f, s: f["hooks"] and f["nscen"] > 0),
    "C10": ("at least one panic or World error was thrown",
            lambda f, s: s["stats"]["panics"] > 0),
}


NSCHED_CASES = {"quick": 6, "thorough": 40}
NSCHED_PER_CASE = {"quick": 25, "thorough": 60}


def tlc_schedules(tier):
    """Spec -> impl: samples behaviours of Runner.tla on small seeded cases and turns their
    external choices into harness schedules for the same cases."""
    import random
    import copy
    from tla_literal import lit
    rng = random.Random(seed() * 31 + 5)
    out = []
    info = []
    k = 0
    tries = 0
    while k < NSCHED_CASES[tier] and tries < 2000:
        tries += 1
        c = gen_cases.gen_case(rng, f"m{k}", rng.choice(["mixed", "retry", "serial", "limits", "failfast"]))
        ex = c["expect"]
        nsc = len(ex["scen"])
        if not (2 <= nsc <= 3) or any(len(s["steps"]) > 2 for s in ex["scen"].values()) \
                or any(s["budget"] > 1 for s in ex["scen"].values()) or len(ex["feats"]) > 2 \
                or ex["limit"] > 3:
            continue
        # model time: one tick per delay
        cfg = copy.deepcopy(ex)
        for s in cfg["scen"].values():
            s["delay_us"] = 1 if s["delay_us"] > 0 else 0
        mod = f"GenCase{k}"
        d = os.path.join(WORK, "gencases")
        os.makedirs(d, exist_ok=True)
        with open(os.path.join(d, mod + ".tla"), "w") as f:
            f.write(f"---- MODULE {mod} ----\nEXTENDS Gen_Runner\nTheCase == {lit(cfg)}\n====\n")
        with open(os.path.join(d, mod + ".cfg"), "w") as f:
            f.write("SPECIFICATION GSpec\nCONSTANTS\n  Cfg <- TheCase\n  MaxFail = 2\n  IdleYields = TRUE\n"
                    "  SerialExclusive = TRUE\n  LogPoints = {}\n  MaxLogs = 0\nINVARIANTS Dump\nCHECK_DEADLOCK FALSE\n")
        r = tlc(os.path.join(d, mod + ".tla"), os.path.join(d, mod + ".cfg"), workers=1,
                simulate={"num": NSCHED_PER_CASE[tier], "depth": 400, "seed": seed() * 100 + k},
                timeout=900, tag=f"gensched{k}", env={"JAVA_TOOL_OPTIONS": "-DTLA-Library=" + SPEC})
        require_ok(r, f"Gen_Runner {mod}")
        scheds = tlc_lines(r["out"], "REPLAY")
        seen = set()
        n = 0
        for sc in scheds:
            if sc["viol"]:
                raise ToolError(f"Gen_Runner {mod}: the model violates the monitor: {sc['viol']}")
            key = json.dumps(sc["sched"])
            if key in seen:
                continue
            seen.add(key)
            hc = copy.deepcopy(c)
            hc["id"] = f"m{k}.{n}"
            hc["pipelines"] = []
            for p in hc["parser"]:
                if p["item"] == "feat":
                    p["pending"] = 1
            gates = []
            outcomes = {}
            for g in sc["sched"]:
                if g["k"] == "gate":
                    suffix = {"bw_gate": "world", "sw_gate": "world", "b_gate": "before",
                              "a_gate": "after"}.get(g["pc"], g["label"])
                    gates.append(f"{g['s']}#{g['cur']}:{suffix}")
                    if g["fails"]:
                        atts = outcomes.setdefault(g["s"], [])
                        while len(atts) <= g["cur"]:
                            atts.append({"steps": {}})
                        a = atts[g["cur"]]
                        if suffix == "world":
                            a["world"] = "err"
                        elif suffix == "before":
                            a["before"] = "panic_string"
                        elif suffix == "after":
                            a["after"] = "panic_string"
                        else:
                            a["steps"][g["label"]] = "panic_string"
                elif g["k"] == "parser":
                    gates.append(f"parser:{g['cur']}:1")
                elif g["k"] == "tick":
                    gates.append("@sleep")
            hc["outcomes"] = outcomes
            hc["schedule"] = {"seed": 1, "gates": gates, "sleep_pct": 0,
                              "sleep_ms": max([s["delay_us"] for s in ex["scen"].values()] + [0]) // 1000 + 3,
                              "multi_pct": 0}
            out.append(hc)
            n += 1
        info.append({"case": mod, "scenarios": nsc, "behaviours_sampled": len(scheds), "distinct_schedules": n})
        k += 1
    return out, info


def run_engine(tier):
    cached = cache_get("runner", tier)
    if cached:
        log("[runner] using cached engine result")
        return cached
    t0 = time.time()
    import engine_runner_mc
    mc = engine_runner_mc.model_check(tier)
    n = NCASES[tier]
    cases = gen_cases.gen_cases(seed(), n)
    sched_cases, sched_info = tlc_schedules(tier)
    cases = cases + sched_cases
    shards = SHARDS[tier]
    # keep twin pairs adjacent: shard by pair-preserving chunks instead
    parts = []
    chunk = (len(cases) + shards - 1) // shards
    i = 0
    while i < len(cases):
        j = min(len(cases), i + chunk)
        if j < len(cases) and cases[j]["expect"]["twin"]:
            j += 1
        parts.append(cases[i:j])
        i = j
    build_harness()
    with ThreadPoolExecutor(max_workers=min(len(parts), 6)) as ex:
        futs = [ex.submit(drive_and_validate, p, f"runner{k}") for k, p in enumerate(parts)]
        results = [f.result() for f in futs]
    summaries = {}
    nrec = 0
    for s, _, nr in results:
        summaries.update(s)
        nrec += nr
    viols = []
    per_case = {}
    for c in cases:
        s = summaries.get(c["id"])
        if s is None:
            continue
        per_case[c["id"]] = {"features": _case_features(c), "stats": s["stats"],
                             "outcomes": s["outcomes"] if isinstance(s["outcomes"], dict) else {},
                             "ended": s["ended"]}
        for v in s["viol"]:
            viols.append({"case": c["id"], "prop": v[0], "rule": v[1], "seq": v[2]})
    # keep the cases that violate something, for replay files
    bad_ids = {v["case"] for v in viols}
    res = {"mc": mc, "ncases": len(per_case), "nrecords": nrec, "viols": viols,
           "schedules_from_tlc": len(sched_cases), "schedule_cases": sched_info,
           "schedules_diverged": sum(1 for c in sched_cases
                                     if summaries.get(c["id"], {}).get("stats", {}).get("schedDiverged", 0)),
           "per_case": per_case, "bad_cases": [c for c in cases if c["id"] in bad_ids][:200],
           "sample_case": cases[3], "wall_s": time.time() - t0}
    cache_put("runner", tier, res)
    return res


def slots_proof():
    """C06, unbounded: TLAPS proves that the local slot rules of the monitor imply `running <= limit`
    for every limit and run length (spec/proof/SlotsInd.tla).  Supplementary: a proof that does not
    go through in this run is reported as such, never as a verdict."""
    import re
    import shutil
    d = os.path.join(WORK, "proof")
    shutil.rmtree(d, ignore_errors=True)
    os.makedirs(d)
    shutil.copy(os.path.join(SPEC, "proof", "SlotsInd.tla"), d)
    t0 = time.time()
    try:
        r = subprocess.run(["tlapm", "--threads", "4", "SlotsInd.tla"], cwd=d, stdout=subprocess.PIPE,
                           stderr=subprocess.STDOUT, text=True, timeout=300)
        m = re.search(r"All (\d+) obligations? proved", r.stdout)
        out = {"module": "spec/proof/SlotsInd.tla", "tool": "tlapm (SMT, Zenon, PTL)",
               "status": "proved" if m else "not proved in this run",
               "obligations": int(m.group(1)) if m else 0, "wall_s": round(time.time() - t0, 1),
               "theorem": "Spec => [](running <= Limit), for every Limit >= 1"}
    except (subprocess.TimeoutExpired, OSError) as e:
        out = {"module": "spec/proof/SlotsInd.tla", "status": f"tool did not finish: {e}"[:200], "obligations": 0}
    shutil.rmtree(d, ignore_errors=True)
    return out


def check_prop(prop):
    def fn(tier):
        t0 = time.time()
        res = run_engine(tier)
        rule_text, pred = NONTRIVIAL[prop]
        nontriv = sum(1 for pc in res["per_case"].values()
                      if pred(pc["features"], pc))
        bad = {c["id"]: c for c in res["bad_cases"]}
        violations = []
        for v in res["viols"]:
            if v["prop"] != prop:
                continue
            violations.append({
                "sig": f"{prop}:{v['rule']}",
                "what": f"{v['rule']} (case {v['case']}, record seq {v['seq']})",
                "replay": {"property": prop, "rule": v["rule"], "seq": v["seq"],
                           "case": bad.get(v["case"])},
            })
        # the runs with the tracing integration on are runs of the same runner: its span-close
        # waits add suspension points that plain runs do not have
        tr = run_tracing_engine(tier)
        trbad = {c["id"]: c for c in tr["bad_cases"]}
        for v in tr["viols"]:
            if v["prop"] != prop:
                continue
            violations.append({
                "sig": f"{prop}:{v['rule']}",
                "what": f"{v['rule']} (tracing run {v['case']}, record seq {v['seq']})",
                "replay": {"property": prop, "rule": v["rule"], "seq": v["seq"],
                           "case": trbad.get(v["case"])},
            })
        mc = res["mc"]
        sc = res["sample_case"]
        coverage = {
            "states": sum(m["states"] for m in mc["configs"]),
            "distinct_states": sum(m["distinct"] for m in mc["configs"]),
            "transitions": sum(m["states"] for m in mc["configs"]),
            "mc_configs": mc["configs"],
            "exhaustive": True,
            "checker_cmd": "tlc -workers 8 -config MC_Runner_*.cfg MC_Runner.tla ; harness drive ; "
                           "tlc -workers 1 Trace_Runner.tla",
            "traces_validated_against_impl": res["ncases"] + tr["ncases"],
            "runs_with_tracing_integration": tr["ncases"],
            "trace_records": res["nrecords"] + tr["nrecords"],
            "schedules_from_tlc": res.get("schedules_from_tlc", 0),
            "schedules_from_tlc_not_followed_by_the_code": res.get("schedules_diverged", 0),
            "schedule_cases": res.get("schedule_cases", []),
            "evaluations": res["ncases"],
            "distinct_nontrivial": nontriv,
            "rule": "cases are generated from the seed (lib/gen_cases.py), distinct by construction; "
                    "a driven run is non-trivial for this property if " + rule_text,
            "samples": [{"case_id": sc["id"],
                         "features": sc["features"], "parser": sc["parser"], "cfg": sc["cfg"],
                         "outcomes": sc["outcomes"], "schedule": sc["schedule"],
                         "summary": res["per_case"].get(sc["id"])}],
            "engine_wall_s": round(res["wall_s"], 1),
        }
        if prop == "C06":
            coverage["unbounded_proof"] = slots_proof()
        return {"level": "model_checking", "coverage": coverage, "violations": violations,
                "assumptions": [
                    "TLC 1.8.0; MC_Runner explores the reference design exhaustively only for its small constants",
                    "hook records are emitted after the state change and before the next await (single-threaded executor)",
                    "the test double (gates, scripted outcomes) only adds Pending returns, which the runner must tolerate",
                    "real time is used one-sidedly (retry delay lower bound); time stamps come from one monotonic clock",
                    "the expected structure of a case (`expect`) is computed by lib/gen_cases.py from the same description the harness renders to Gherkin",
                ], "wall_s": time.time() - t0}
    return fn


def replay(prop, payload):
    case = payload["case"]
    if case is None:
        raise ToolError("replay file has no case")
    summ, _, _ = drive_and_validate([case], "runner_replay")
    return summ[case["id"]]


# ---------------------------------------------------------------------------
# C20: tracing integration (one process per driven run: the subscriber is global)
# ---------------------------------------------------------------------------

NTRACING = {"quick": 180, "thorough": 3000}


def tracing_cases(n):
    import random
    rng = random.Random(seed() * 7919 + 20)
    cases = []
    i = 0
    while len(cases) < n:
        i += 1
        if i % 3 == 0:
            # (a third of the runs: the window in which a too early re-queued retry overlaps its
            # failed attempt is one executor turn wide and depends on the order the gates are opened)
            c = gen_cases.retry_overlap_case(rng, f"t{i}")
        else:
            c = gen_cases.gen_case(rng, f"t{i}", rng.choice(["mixed", "retry", "limits", "serial"]))
        if not c["expect"]["scen"]:
            continue
        c["cfg"]["tracing"] = True
        c["cfg"]["logs_pre"] = rng.choice([0, 1, 2])
        # now and then a burst: more logs after the last await point than fit one forwarding round
        c["cfg"]["logs_post"] = rng.choice([0, 1, 2, 3, 30, 45])
        pts = ["step"]
        if c["cfg"]["before"] and rng.random() < 0.7:
            pts.append("before")
        # logs inside the after hook hit the known finding F7: keep them in a third of the cases
        if c["cfg"]["after"] and i % 3 == 0:
            pts.append("after")
        c["cfg"]["log_points"] = pts
        c["pipelines"] = []
        # no real-time delays needed here
        cases.append(c)
    return cases


def _one_tracing_run(args):
    k, case = args
    cin = os.path.join(WORK, "tracing", f"case_{k}.ndjson")
    tout = os.path.join(WORK, "tracing", f"trace_{k}.ndjson")
    write_ndjson(cin, [case])
    r = subprocess.run([HARNESS_BIN], env=harness_env(["drive", cin, tout]), stdout=subprocess.PIPE,
                       stderr=subprocess.PIPE, text=True, timeout=600)
    if r.returncode != 0:
        raise ToolError(f"harness drive (tracing) failed rc={r.returncode}: {r.stderr[-1500:]}")
    return tout


def run_tracing_engine(tier):
    """Driven runs with the tracing integration on (one process per run), judged by ALL rules of the
    monitor: the C20 rules decide C20, every other rule hit here is reported by its own property."""
    cached = cache_get("tracing", tier)
    if cached:
        return cached
    if True:
        import engine_runner_mc
        mc = engine_runner_mc.model_check_tracing(tier)
        build_harness()
        os.makedirs(os.path.join(WORK, "tracing"), exist_ok=True)
        cases = tracing_cases(NTRACING[tier])
        with ThreadPoolExecutor(max_workers=8) as ex:
            outs = list(ex.map(_one_tracing_run, enumerate(cases)))
        allp = os.path.join(WORK, "tracing_all.ndjson")
        with open(allp, "w") as f:
            for p in outs:
                f.write(open(p).read())
        nrec = sum(1 for _ in open(allp))
        t = tlc("Trace_Runner.tla", os.path.join(SPEC, "Trace_Runner.cfg"), workers=1,
                env={"TRACE": allp}, timeout=3600, tag="tracing", xss=True, heap="4g")
        require_ok(t, "Trace_Runner (tracing runs)")
        summ = {s["case"]: s for s in tlc_lines(t["out"], "CASE")}
        if len(summ) != len(cases):
            raise ToolError(f"Trace_Runner judged {len(summ)} of {len(cases)} tracing runs")
        nlogs = 0
        for line in open(allp):
            if '"cb":"log"' in line:
                nlogs += 1
        viols = []
        for c in cases:
            for v in summ[c["id"]]["viol"]:
                viols.append({"case": c["id"], "prop": v[0], "rule": v[1], "seq": v[2]})
        bad_ids = {v["case"] for v in viols}
        res = {"mc": mc, "ncases": len(cases), "nrecords": nrec, "nlogs": nlogs, "viols": viols,
               "nontrivial": sum(1 for c in cases if (c["cfg"]["logs_pre"] + c["cfg"]["logs_post"]) > 0
                                 and len(c["expect"]["scen"]) >= 2),
               "bad_cases": [c for c in cases if c["id"] in bad_ids][:100],
               "sample": cases[1]}
        cache_put("tracing", tier, res)
    return res


def check_c20(tier):
    t0 = time.time()
    res = run_tracing_engine(tier)
    bad = {c["id"]: c for c in res["bad_cases"]}
    violations = []
    other = collections.Counter()
    for v in res["viols"]:
        if v["prop"] != "C20":
            other[(v["prop"], v["rule"])] += 1
            continue
        violations.append({"sig": f"C20:{v['rule']}",
                           "what": f"{v['rule']} (tracing run {v['case']}, record seq {v['seq']})",
                           "replay": {"property": "C20", "rule": v["rule"], "seq": v["seq"],
                                      "case": bad.get(v["case"])}})
    mc = res["mc"]
    sc = res["sample"]
    cov = {
        "states": sum(m["states"] for m in mc["configs"]),
        "distinct_states": sum(m["distinct"] for m in mc["configs"]),
        "transitions": sum(m["states"] for m in mc["configs"]),
        "mc_configs": mc["configs"], "asis": mc.get("asis", []), "exhaustive": True,
        "checker_cmd": "tlc MC_Runner.tla (Tracing instances) ; harness drive (one process per run, "
                       "Cucumber::init_tracing) ; tlc -workers 1 Trace_Runner.tla",
        "traces_validated_against_impl": res["ncases"], "trace_records": res["nrecords"],
        "log_events_emitted": res["nlogs"],
        "violations_of_other_properties_seen_in_tracing_runs": {f"{k[0]}:{k[1]}": n for k, n in other.items()},
        "evaluations": res["ncases"], "distinct_nontrivial": res["nontrivial"],
        "rule": "seeded cases (distinct by construction), each run in its own process with the tracing "
                "integration on; non-trivial if callbacks emit at least one log and >= 2 scenarios exist "
                "(logs of different scenarios can be confused)",
        "samples": [{"case_id": sc["id"], "cfg": sc["cfg"], "features": sc["features"],
                     "schedule": sc["schedule"]}],
    }
    return {"level": "model_checking", "coverage": cov, "violations": violations,
            "assumptions": ["one driven run per process (global subscriber); completion order controlled by gates",
                            "log messages carry (scenario, attempt, callback, index); the formatted text is searched for that token",
                            "the model flushes the log channel at every executor poll (biased select + drain loop of execute())"],
            "wall_s": time.time() - t0}
