---------------------------- MODULE Gen_Summarize ----------------------------
(***************************************************************************)
(* C12 / C14 / C01 (writer side), spec -> impl: dumps sequential streams   *)
(* of SeqGen (one JSON line per complete behaviour) for replay through the *)
(* real Summarize, reporters and stats pipelines.                          *)
(***************************************************************************)
EXTENDS SeqGen, Universes, Json

VARIABLE hist
vars == <<gvars, hist>>

Init == GInit /\ hist = <<>>
Next == /\ GNext
        /\ hist' = IF GEmitted THEN Append(hist, ev') ELSE hist
Spec == Init /\ [][Next]_vars

Dump == GDone => PrintT(<<"REPLAY", ToJson([universe |-> U, stream |-> hist])>>)
=============================================================================
