--------------------------- MODULE Gen_Combinators ---------------------------
(***************************************************************************)
(* C13, spec -> impl: ALL input sequences up to length MaxLen over an      *)
(* alphabet of events (not restricted to the Runner contract: the          *)
(* wrappers are stateless per event), one JSON line per sequence.          *)
(***************************************************************************)
EXTENDS Combinators, Universes, Json

CONSTANT MaxLen

R1_ == Retries(0, 1)
R2_ == Retries(1, 0)
Alphabet ==
  { EvStarted, EvFinished, EvParseErr(1), EvFeatS("F1"), EvRuleS("F1", "R1"), EvWrite,
    EvSc("F1", "", "S1", R1_, "StepSk", "", 2, ""),      \* own step, untagged: rewritten
    EvSc("F1", "", "S1", R1_, "StepSk", "", 1, ""),      \* background step, untagged: rewritten
    EvSc("F1", "R1", "S2", NoRetries, "StepSk", "", 2, ""),  \* rule background, rule tagged
    EvSc("F1", "R1", "S2", NoRetries, "StepSk", "", 3, ""),  \* own step, rule tagged
    EvSc("F2", "", "S3", NoRetries, "StepSk", "", 1, ""),    \* feature tagged
    EvSc("F3", "", "S4", NoRetries, "StepSk", "", 1, ""),    \* scenario tagged
    EvSc("F1", "", "S1", R1_, "StepF", "", 2, "panic"),      \* retried failure
    EvSc("F1", "", "S1", R2_, "StepF", "", 2, "panic"),      \* final failure
    EvSc("F1", "", "S1", R1_, "HookF", "b", 0, ""),
    EvSc("F1", "", "S1", R1_, "StepP", "", 1, "") }

VARIABLE inp
Init == inp = <<>>
Next == Len(inp) < MaxLen /\ \E a \in Alphabet : inp' = Append(inp, a)
Spec == Init /\ [][Next]_inp

Dump == PrintT(<<"REPLAY", ToJson([universe |-> U, inp |-> inp])>>)
=============================================================================
