------------------------------ MODULE RunnerObs ------------------------------
(***************************************************************************)
(* Property-level monitor of a run of runner::Basic (C01..C10, parts of    *)
(* C18).  Obs(o, rec) consumes one record -- a hooked linearization point  *)
(* of the real runner (src/verif.rs), a callback of the harness' test      *)
(* double, or a harness observation (quiescent point, stream end, panic    *)
(* hook probe, writer verdict) -- and returns the new monitor state; every *)
(* broken rule adds <<property, rule, seq>> to o.viol and the state is     *)
(* re-synchronised from the logged fields so the rest of the trace is      *)
(* still judged.                                                           *)
(*                                                                         *)
(* The same operator is applied (a) to the records emitted by the model    *)
(* Runner.tla in every reachable state (MC_Runner) and (b) to the records  *)
(* of the real code (Trace_Runner).  It never mentions queue order or any  *)
(* other choice the statements leave free.                                 *)
(***************************************************************************)
EXTENDS Integers, Sequences, FiniteSets, TLC

Range(seq) == {seq[i] : i \in DOMAIN seq}

NoRes == [k |-> "", pty |-> "", msg |-> ""]
NoAtt == [ph |-> "none", cur |-> -1, left |-> 0, retr |-> FALSE, pc |-> "idle",
          i |-> 1, res |-> NoRes, ares |-> NoRes, world |-> 0, wctr |-> 0,
          wmade |-> 0, failed |-> FALSE, hookF |-> FALSE, skipped |-> FALSE, afterCalled |-> FALSE,
          cbopen |-> "", finT |-> 0, out |-> "none", nstarted |-> 0]

\* cfg: the `expect` record of the case (see lib/gen_cases.py)
ObsInit(cfg) ==
  [cfg |-> cfg,
   ph |-> "new",                 \* new | started | finished | ended
   nperr |-> 0, pfin |-> FALSE, ins |-> <<>>,
   fs |-> [f \in DOMAIN cfg.feats |-> "new"],
   rs |-> [r \in DOMAIN cfg.rules |-> "new"],
   at |-> [s \in DOMAIN cfg.scen |-> NoAtt],
   worlds |-> {},
   slots |-> cfg.limit, ndisp |-> 0, ncomp |-> 0, sinceGet |-> FALSE,
   hookSilent |-> FALSE, hookRestored |-> FALSE,
   begun |-> {}, batched |-> {},
   tripped |-> FALSE, trippedH |-> FALSE, mayStart |-> {}, lateStarts |-> 0,
   logs |-> {},                  \* tracing logs emitted by user code, not yet delivered (C20)
   ndelivered |-> 0,
   ffail |-> FALSE, skipfail |-> FALSE, retriedHookF |-> FALSE, retriedHookSkip |-> FALSE,
   lastFin |-> [s |-> "", failed |-> FALSE, retry |-> FALSE],
   stats |-> [serialIsolated |-> 0, delayed |-> 0, retried |-> 0, panics |-> 0,
              fullSlots |-> 0, lateInsert |-> 0, schedDiverged |-> 0],
   viol |-> {}]

Inflight(o) == {s \in DOMAIN o.at : o.at[s].ph = "run"}
IsSerial(o, s) == o.cfg.scen[s].serial
NSteps(o, s) == Len(o.cfg.scen[s].steps)

\* conditional violations: cs is a set of <<holds, property, rule>>
Chk(o, rec, cs) ==
  [o EXCEPT !.viol = @ \cup {<<c[2], c[3], rec.seq>> : c \in {x \in cs : ~x[1]}}]

ScenOfFeat(o, f) == {s \in DOMAIN o.cfg.scen : o.cfg.scen[s].f = f}
ScenOfRule(o, r) == {s \in DOMAIN o.cfg.scen : o.cfg.scen[s].r = r}
RulesOfFeat(o, f) == {r \in DOMAIN o.cfg.rules : o.cfg.rules[r].f = f}
InsSet(o) == Range(o.ins)

RECURSIVE SumOver(_, _, _)
SumOver(cfgf, fs, field) ==
  IF fs = {} THEN 0
  ELSE LET f == CHOOSE x \in fs : TRUE IN cfgf[f][field] + SumOver(cfgf, fs \ {f}, field)

---------------------------------------------------------------------------
(* Run-level events                                                        *)

ObsRunStarted(o, rec) ==
  [Chk(o, rec, {<<o.ph = "new", "C03", "run-Started-not-once">>,
                <<o.hookSilent, "C10", "running-with-loud-panic-hook">>})
     EXCEPT !.ph = "started"]

ObsParseErr(o, rec) ==
  LET k == o.nperr + 1
      errItems == {i \in DOMAIN o.cfg.parser : o.cfg.parser[i].item = "err"}
      kth == IF Cardinality({i \in errItems : TRUE}) >= k
             THEN CHOOSE i \in errItems : Cardinality({j \in errItems : j < i}) = k - 1
             ELSE 0
  IN [Chk(o, rec, {<<~o.pfin, "C03", "parser-error-after-ParsingFinished">>,
                   <<o.ph \in {"new", "started"}, "C03", "parser-error-after-run-Finished">>,
                   <<kth # 0 /\ rec.item = kth - 1, "C03", "parser-error-out-of-order-or-duplicated">>})
       EXCEPT !.nperr = k]

ObsInsert(o, rec) ==
  LET n == Len(o.ins) + 1
      featItems == {i \in DOMAIN o.cfg.parser : o.cfg.parser[i].item = "feat"}
      nth == IF Cardinality(featItems) >= n
             THEN CHOOSE i \in featItems : Cardinality({j \in featItems : j < i}) = n - 1
             ELSE 0
      late == o.ph = "started" /\ Inflight(o) # {}
  IN [Chk(o, rec, {<<nth # 0 /\ o.cfg.parser[nth].f = rec.f, "C04", "inserted-feature-not-the-next-supplied">>,
                   <<~(o.cfg.fail_fast /\ o.nperr > 0), "C08", "feature-ingested-after-parser-error">>,
                   <<~o.pfin, "C03", "feature-ingested-after-ParsingFinished">>})
       EXCEPT !.ins = Append(@, rec.f),
              !.stats.lateInsert = @ + (IF late THEN 1 ELSE 0)]

ObsParsingFinished(o, rec) ==
  LET fsI == InsSet(o) IN
  [Chk(o, rec, {<<~o.pfin, "C03", "ParsingFinished-not-once">>,
                <<rec.features = Len(o.ins), "C03", "ParsingFinished-features-count">>,
                <<rec.rules = SumOver(o.cfg.feats, fsI, "nrules"), "C03", "ParsingFinished-rules-count">>,
                <<rec.scenarios = SumOver(o.cfg.feats, fsI, "nscen"), "C03", "ParsingFinished-scenarios-count">>,
                <<rec.steps = SumOver(o.cfg.feats, fsI, "nsteps"), "C03", "ParsingFinished-steps-count">>,
                <<rec.parser_errors = o.nperr, "C03", "ParsingFinished-errors-count">>})
     EXCEPT !.pfin = TRUE]

ObsFeatS(o, rec) ==
  LET known == rec.f \in DOMAIN o.fs IN
  IF ~known THEN Chk(o, rec, {<<FALSE, "C04", "event-of-unknown-feature">>})
  ELSE [Chk(o, rec, {<<o.ph = "started", "C03", "feature-event-outside-run-bracket">>,
                     <<o.fs[rec.f] = "new", "C03", "Feature-Started-not-once">>,
                     <<rec.f \in InsSet(o), "C04", "feature-started-but-never-supplied">>})
         EXCEPT !.fs[rec.f] = "open"]

ObsRuleS(o, rec) ==
  LET known == rec.r \in DOMAIN o.rs /\ rec.f \in DOMAIN o.fs IN
  IF ~known THEN Chk(o, rec, {<<FALSE, "C04", "event-of-unknown-rule">>})
  ELSE [Chk(o, rec, {<<o.fs[rec.f] = "open", "C03", "Rule-Started-outside-its-feature-bracket">>,
                     <<o.cfg.rules[rec.r].f = rec.f, "C03", "rule-under-wrong-feature">>,
                     <<o.rs[rec.r] = "new", "C03", "Rule-Started-not-once">>})
         EXCEPT !.rs[rec.r] = "open"]

ObsRuleF(o, rec) ==
  LET known == rec.r \in DOMAIN o.rs IN
  IF ~known THEN Chk(o, rec, {<<FALSE, "C04", "event-of-unknown-rule">>})
  ELSE [Chk(o, rec, {<<o.rs[rec.r] = "open", "C03", "Rule-Finished-without-open-bracket">>,
                     <<\A s \in ScenOfRule(o, rec.r) : o.at[s].ph # "run", "C03", "Rule-Finished-while-its-scenario-runs">>,
                     <<\E s \in ScenOfRule(o, rec.r) : o.at[s].nstarted > 0, "C03", "bracket-for-rule-with-nothing-run">>,
                     <<o.tripped \/ \A s \in ScenOfRule(o, rec.r) : o.at[s].ph = "done", "C03", "Rule-Finished-before-all-its-scenarios">>})
         EXCEPT !.rs[rec.r] = "closed"]

ObsFeatF(o, rec) ==
  LET known == rec.f \in DOMAIN o.fs IN
  IF ~known THEN Chk(o, rec, {<<FALSE, "C04", "event-of-unknown-feature">>})
  ELSE [Chk(o, rec, {<<o.fs[rec.f] = "open", "C03", "Feature-Finished-without-open-bracket">>,
                     <<\A r \in RulesOfFeat(o, rec.f) : o.rs[r] # "open", "C03", "Feature-Finished-with-open-rule">>,
                     <<\A s \in ScenOfFeat(o, rec.f) : o.at[s].ph # "run", "C03", "Feature-Finished-while-its-scenario-runs">>,
                     <<\E s \in ScenOfFeat(o, rec.f) : o.at[s].nstarted > 0, "C03", "bracket-for-feature-with-nothing-run">>,
                     <<o.tripped \/ \A s \in ScenOfFeat(o, rec.f) : o.at[s].ph = "done", "C03", "Feature-Finished-before-all-its-scenarios">>})
         EXCEPT !.fs[rec.f] = "closed"]

ObsRunFinished(o, rec) ==
  [Chk(o, rec, {<<o.logs = {}, "C20", "log-lost-before-run-Finished">>,
                <<o.ph = "started", "C03", "run-Finished-not-once-or-unstarted">>,
                <<\A f \in DOMAIN o.fs : o.fs[f] # "open", "C03", "run-Finished-with-open-feature">>,
                <<\A r \in DOMAIN o.rs : o.rs[r] # "open", "C03", "run-Finished-with-open-rule">>,
                <<Inflight(o) = {}, "C08", "run-Finished-with-attempt-in-flight">>})
     EXCEPT !.ph = "finished"]

\* the public stream ended (poll returned None)
ObsEnd(o, rec) ==
  LET supplied == {o.cfg.parser[i].f : i \in {j \in DOMAIN o.cfg.parser : o.cfg.parser[j].item = "feat"}}
      cut == o.cfg.fail_fast /\ (o.tripped \/ o.nperr > 0)
      expectedScen == {s \in DOMAIN o.cfg.scen : o.cfg.scen[s].f \in InsSet(o)}
  IN [Chk(o, rec, {<<o.ph = "finished", "C03", "stream-ended-without-run-Finished">>,
                   <<o.pfin, "C03", "stream-ended-without-ParsingFinished">>,
                   <<cut \/ supplied = InsSet(o), "C04", "supplied-feature-never-ingested">>,
                   <<o.tripped \/ \A s \in expectedScen : o.at[s].nstarted > 0, "C04", "supplied-scenario-never-attempted">>,
                   <<~o.cfg.fail_fast \/ o.tripped \/ \A s \in expectedScen : o.at[s].nstarted > 0,
                     "C08", "fail-fast-run-stopped-although-nothing-failed-finally">>,
                   <<o.tripped \/ \A s \in DOMAIN o.at : o.at[s].ph # "wait", "C05", "failed-attempt-with-budget-left-never-retried">>,
                   <<\A s \in DOMAIN o.at : o.at[s].ph # "run", "C08", "attempt-never-finished">>,
                   <<\A s \in DOMAIN o.at : o.at[s].ph # "run", "C02", "attempt-without-Finished-event">>})
       EXCEPT !.ph = "ended", !.stats.schedDiverged = IF rec.sched_diverged THEN 1 ELSE 0]

---------------------------------------------------------------------------
(* Scenario events: the per-attempt automaton (C02) and everything that    *)
(* is decided at Started / Finished (C03..C08)                             *)

StepAt(o, s, i) == o.cfg.scen[s].steps[i]

\* what the result event of step i must be, given the callbacks seen
ExpectedStepResult(o, s, a) ==
  LET st == StepAt(o, s, a.i) IN
  IF st.kind = "nomatch" THEN "StepSk"
  ELSE IF st.kind = "ambig" THEN "StepF"
  ELSE IF a.res.k = "pass" THEN "StepP"
  ELSE IF a.res.k \in {"panic", "err"} THEN "StepF"
  ELSE "?"

ObsSc(o, rec) ==
  IF rec.s \notin DOMAIN o.at
  THEN Chk(o, rec, {<<FALSE, "C04", "event-of-scenario-never-supplied">>})
  ELSE
  LET s == rec.s
      a == o.at[s]
      sc == o.cfg.scen[s]
      n == NSteps(o, s)
      k == rec.k
      bracketOK == /\ rec.f = sc.f /\ rec.r = sc.r
                   /\ rec.f \in DOMAIN o.fs /\ o.fs[rec.f] = "open"
                   /\ (IF sc.r = "" THEN TRUE ELSE o.rs[sc.r] = "open")
      base == Chk(o, rec, {<<bracketOK, "C03", "scenario-event-outside-its-feature-or-rule-bracket">>,
                           <<o.ph = "started", "C03", "scenario-event-outside-run-bracket">>})
  IN
  IF k = "Started" THEN
    LET expCur == IF a.ph = "wait" THEN a.cur + 1 ELSE 0
        infl == Inflight(o)
        lim == o.cfg.limit
        late == o.tripped
        o1 == Chk(base, rec,
               {<<a.ph # "run", "C05", "attempts-of-one-scenario-overlap">>,
                <<a.ph # "done", "C05", "scenario-attempted-again-after-its-last-attempt">>,
                <<rec.cur = expCur, "C05", "attempt-number-not-consecutive">>,
                <<rec.retr = (sc.budget >= 0), "C18", "retry-options-presence">>,
                <<~rec.retr \/ rec.left = sc.budget - rec.cur, "C05", "left-is-not-budget-minus-current">>,
                <<a.ph # "wait" \/ rec.t_us - a.finT >= sc.delay_us, "C05", "retry-started-before-its-delay-elapsed">>,
                <<sc.f \in InsSet(o), "C04", "scenario-attempted-but-never-supplied">>,
                <<lim < 0 \/ Cardinality(infl \cup {s}) <= lim, "C06", "more-attempts-in-flight-than-the-limit">>,
                <<IF sc.serial THEN infl \subseteq {s} ELSE \A x \in infl : ~IsSerial(o, x) \/ x = s,
                  "C07", "serial-attempt-overlaps-another-attempt">>,
                <<~late \/ o.lateStarts + 1 <= (IF lim < 0 THEN 1000000 ELSE lim - 1), "C08",
                  "too-many-attempts-begun-after-the-final-failure">>})
    IN [o1 EXCEPT !.at[s] = [NoAtt EXCEPT !.ph = "run", !.cur = rec.cur, !.left = rec.left,
                                          !.retr = rec.retr, !.pc = "S", !.finT = a.finT,
                                          !.nstarted = a.nstarted + 1],
                  !.lateStarts = @ + (IF late THEN 1 ELSE 0),
                  !.stats.serialIsolated = @ + (IF sc.serial THEN 1 ELSE 0),
                  !.stats.delayed = @ + (IF a.ph = "wait" /\ sc.delay_us > 0 THEN 1 ELSE 0),
                  !.stats.retried = @ + (IF a.ph = "wait" THEN 1 ELSE 0),
                  !.stats.fullSlots = @ + (IF lim > 0 /\ Cardinality(infl \cup {s}) = lim THEN 1 ELSE 0)]
  ELSE
  LET o0 == Chk(base, rec,
              {<<a.ph = "run", "C02", "scenario-event-outside-an-attempt">>,
               <<a.ph # "run" \/ (rec.cur = a.cur /\ rec.left = a.left /\ rec.retr = a.retr),
                 "C02", "retry-counter-changes-within-attempt">>})
      \* position after the before-hook part
      stepsPc == IF n = 0 THEN "post" ELSE "steps"
      pcNow == IF a.pc = "S" /\ ~o.cfg.before THEN stepsPc ELSE a.pc
      bad(code) == Chk(o0, rec, {<<FALSE, "C02", code>>})
  IN
  IF a.ph # "run" THEN o0
  ELSE IF k = "HookS" /\ rec.h = "b" THEN
    IF a.pc = "S" /\ o.cfg.before THEN [o0 EXCEPT !.at[s].pc = "Hb"]
    ELSE bad("unexpected-before-hook-Started")
  ELSE IF k = "HookP" /\ rec.h = "b" THEN
    [Chk(o0, rec, {<<\A p \in o.logs : ~(p.s = s /\ p.att = a.cur /\ p.point = "before"),
                     "C20", "hook-result-emitted-before-its-logs-were-delivered">>,
                   <<a.pc = "Hb", "C02", "unexpected-before-hook-Passed">>,
                   <<a.res.k = "pass", "C02", "before-hook-Passed-but-hook-did-not-pass">>,
                   <<a.world # 0, "C09", "before-hook-passed-without-a-World">>})
       EXCEPT !.at[s].pc = stepsPc, !.at[s].res = NoRes]
  ELSE IF k = "HookF" /\ rec.h = "b" THEN
    [Chk(o0, rec, {<<a.pc = "Hb", "C02", "unexpected-before-hook-Failed">>,
                   <<a.res.k \in {"panic", "err"}, "C02", "before-hook-Failed-but-nothing-failed">>,
                   <<a.res.k \notin {"panic", "err"} \/ (rec.pty = a.res.pty /\ rec.pmsg = a.res.msg),
                     "C10", "failure-payload-not-the-one-thrown">>,
                   <<~o.cfg.after \/ a.afterCalled, "C09", "failure-emitted-before-the-after-hook-ran">>})
       EXCEPT !.at[s].pc = "post", !.at[s].failed = TRUE, !.at[s].hookF = TRUE,
              !.at[s].res = NoRes, !.stats.panics = @ + 1]
  ELSE IF k = "StepS" THEN
    IF pcNow = "steps" /\ a.i <= n THEN
      LET st == StepAt(o, s, a.i) IN
      [Chk(o0, rec, {<<rec.step = st.text /\ rec.bg = st.bg, "C02", "step-out-of-declaration-order">>})
         EXCEPT !.at[s].pc = "Sr", !.at[s].res = NoRes]
    ELSE bad("unexpected-step-Started")
  ELSE IF k \in {"StepP", "StepSk", "StepF"} THEN
    IF a.pc # "Sr" THEN bad("step-result-without-step-Started")
    ELSE
    LET st == StepAt(o, s, a.i)
        exp == ExpectedStepResult(o, s, a)
        o1 == Chk(o0, rec,
               {<<\A p \in o.logs : ~(p.s = s /\ p.att = a.cur /\ p.point = "step" /\ p.i = a.i),
                  "C20", "step-result-emitted-before-its-logs-were-delivered">>,
                <<rec.step = st.text /\ rec.bg = st.bg, "C02", "step-result-for-another-step">>,
                <<k = exp, "C02", "step-result-contradicts-what-happened">>,
                <<k # "StepF" \/ st.kind # "ambig" \/ rec.err = "ambig", "C02", "ambiguous-step-not-reported-as-ambiguous">>,
                <<k # "StepF" \/ st.kind # "ambig" \/ Len(rec.cands) = 2, "C17", "ambiguity-candidates">>,
                <<k # "StepF" \/ st.kind # "run" \/ rec.err = "panic", "C02", "panicked-step-not-reported-as-panic">>,
                <<k # "StepF" \/ st.kind # "run" \/ a.res.k \notin {"panic", "err"}
                    \/ (rec.pty = a.res.pty /\ rec.pmsg = a.res.msg),
                  "C10", "failure-payload-not-the-one-thrown">>,
                <<k # "StepF" \/ ~o.cfg.after \/ a.afterCalled, "C09", "failure-emitted-before-the-after-hook-ran">>})
    IN IF k = "StepP"
       THEN [o1 EXCEPT !.at[s].i = a.i + 1, !.at[s].res = NoRes,
                       !.at[s].pc = IF a.i + 1 > n THEN "post" ELSE "steps"]
       ELSE IF k = "StepSk"
       THEN [o1 EXCEPT !.at[s].pc = "post", !.at[s].skipped = TRUE, !.at[s].res = NoRes]
       ELSE [o1 EXCEPT !.at[s].pc = "post", !.at[s].failed = TRUE, !.at[s].res = NoRes,
                       !.stats.panics = @ + 1]
  ELSE IF k = "HookS" /\ rec.h = "a" THEN
    IF pcNow = "post" /\ o.cfg.after
    THEN [Chk(o0, rec, {<<a.afterCalled, "C09", "after-hook-events-without-the-hook-having-run">>})
            EXCEPT !.at[s].pc = "Ha"]
    ELSE bad("unexpected-after-hook-Started")
  ELSE IF k \in {"HookP", "HookF"} /\ rec.h = "a" THEN
    [Chk(o0, rec, {<<\A p \in o.logs : ~(p.s = s /\ p.att = a.cur /\ p.point = "after"),
                     "C20", "hook-result-emitted-before-its-logs-were-delivered">>,
                   <<a.pc = "Ha", "C02", "unexpected-after-hook-result">>,
                   <<(k = "HookP") = (a.ares.k = "pass"), "C02", "after-hook-result-contradicts-what-happened">>,
                   <<k = "HookP" \/ a.ares.k # "panic" \/ (rec.pty = a.ares.pty /\ rec.pmsg = a.ares.msg),
                     "C10", "failure-payload-not-the-one-thrown">>,
                   <<k = "HookP" \/ rec.world = (a.world # 0), "C09", "after-hook-failure-world-presence">>})
       EXCEPT !.at[s].pc = "Hdone", !.at[s].failed = (a.failed \/ k = "HookF"),
              !.at[s].hookF = (a.hookF \/ k = "HookF")]
  ELSE IF k = "Finished" THEN
    LET okPc == IF o.cfg.after THEN a.pc = "Hdone" ELSE pcNow = "post"
        failed == a.failed
        retry == failed /\ a.retr /\ a.left > 0
        final == failed /\ ~retry
        trip == o.cfg.fail_fast /\ final /\ ~o.tripped
        outcome == IF failed THEN "failed" ELSE IF a.skipped THEN "skipped" ELSE "passed"
        o1 == Chk(o0, rec, {<<okPc, "C02", "attempt-Finished-too-early">>,
                            <<a.cbopen = "", "C10", "attempt-Finished-with-user-code-still-running">>,
                            <<~o.cfg.after \/ a.afterCalled, "C09", "after-hook-never-ran">>})
    IN [o1 EXCEPT !.at[s].ph = IF retry THEN "wait" ELSE "done",
                  !.at[s].pc = "idle", !.at[s].finT = rec.t_us, !.at[s].out = outcome,
                  !.ffail = @ \/ final,
                  !.retriedHookF = @ \/ (retry /\ a.hookF),
                  !.retriedHookSkip = @ \/ (retry /\ a.hookF /\ a.skipped),
                  !.skipfail = @ \/ (~failed /\ a.skipped /\ ~sc.allow_skipped),
                  !.tripped = @ \/ trip,
                  !.mayStart = IF trip THEN o.batched \ o.begun ELSE @,
                  !.lastFin = [s |-> s, failed |-> failed, retry |-> retry]]
  ELSE IF k = "Log" THEN
    LET cands == {p \in o.logs : p.msg = rec.lmsg} IN
    IF cands = {}
    THEN Chk(o0, rec, {<<rec.lmsg = "", "C20", "log-delivered-twice-or-never-emitted">>})
    ELSE LET p == CHOOSE x \in cands : TRUE
             inPlace == CASE p.point = "step" -> a.pc = "Sr" /\ a.i = p.i
                          [] p.point = "before" -> a.pc = "Hb"
                          [] p.point = "after" -> a.pc = "Ha"
                          [] OTHER -> TRUE
         IN [Chk(o0, rec,
               {<<p.s = s /\ p.att = rec.cur, "C20", "log-attributed-to-another-scenario-or-attempt">>,
                <<p.point = "after" \/ inPlace, "C20", "log-not-between-Started-and-result-of-its-step-or-hook">>,
                \* known shape F7: the after hook runs before its Started event is emitted
                <<p.point # "after" \/ inPlace, "C20", "after-hook-log-before-the-after-hook-Started-event">>})
              EXCEPT !.logs = @ \ {p}, !.ndelivered = @ + 1]
  ELSE bad("unknown-scenario-event")

---------------------------------------------------------------------------
(* Callbacks of the test double (C09, C06/C07 user-code clauses)           *)

ResOf(rec) ==
  IF rec.outcome \in {"pass", "ok"} THEN [k |-> "pass", pty |-> "", msg |-> ""]
  ELSE IF rec.outcome = "err" THEN [k |-> "err", pty |-> "String", msg |-> rec.msg]
  ELSE [k |-> "panic",
        pty |-> (IF rec.outcome = "panic_string" THEN "String"
                 ELSE IF rec.outcome = "panic_str" THEN "str" ELSE "Custom"),
        msg |-> rec.msg]

ObsCb(o, rec) ==
  IF rec.s \notin DOMAIN o.at
  THEN Chk(o, rec, {<<FALSE, "C09", "user-code-run-outside-any-attempt">>})
  ELSE
  LET s == rec.s
      a == o.at[s]
      n == NSteps(o, s)
      others == Inflight(o) \ {s}
      common == Chk(o, rec,
                 {<<a.ph = "run" /\ a.cur = rec.att, "C09", "user-code-run-outside-its-attempt">>,
                  <<\A x \in others : ~IsSerial(o, x), "C07", "foreign-user-code-while-serial-attempt-in-flight">>,
                  <<~IsSerial(o, s) \/ others = {}, "C07", "serial-user-code-while-another-attempt-in-flight">>})
      enter == rec.cb = "enter"
      pt == rec.point
  IN
  IF rec.cb = "log" THEN
    \* a tracing log event emitted by user code inside (s, att), in callback `pt`
    [Chk(o, rec, {<<a.ph = "run" /\ a.cur = rec.att, "C20", "log-emitted-outside-an-attempt">>})
       EXCEPT !.logs = @ \cup {[msg |-> rec.msg, s |-> s, att |-> rec.att, point |-> pt, i |-> a.i]}]
  ELSE IF a.ph # "run" \/ a.cur # rec.att THEN common
  ELSE IF pt = "world" THEN
    IF enter THEN
      LET needed == \/ (a.pc = "Hb" /\ o.cfg.before)
                    \/ (a.pc = "Sr" /\ StepAt(o, s, a.i).kind = "run")
      IN [Chk(common, rec, {<<needed, "C09", "World-created-when-none-is-needed">>,
                            <<a.world = 0 /\ a.wmade = 0, "C09", "World-created-twice-in-one-attempt">>,
                            <<rec.world \notin o.worlds, "C09", "World-instance-reused">>,
                            <<a.cbopen = "", "C09", "user-callbacks-of-one-attempt-overlap">>})
            EXCEPT !.at[s].wmade = a.wmade + 1, !.at[s].cbopen = "world",
                   !.worlds = @ \cup {rec.world}]
    ELSE [common EXCEPT !.at[s].cbopen = "",
                        !.at[s].world = IF rec.outcome = "ok" THEN rec.world ELSE 0,
                        !.at[s].res = IF rec.outcome = "ok" THEN a.res ELSE ResOf(rec)]
  ELSE IF pt = "before" THEN
    IF enter THEN
      [Chk(common, rec, {<<a.pc = "Hb", "C09", "before-hook-not-first">>,
                         <<a.world # 0 /\ rec.world = a.world, "C09", "before-hook-not-on-the-attempts-World">>,
                         <<rec.ctr = 0 /\ rec.wowner_s = s /\ rec.wowner_att = a.cur, "C09", "before-hook-World-not-fresh">>,
                         <<a.cbopen = "", "C09", "user-callbacks-of-one-attempt-overlap">>})
         EXCEPT !.at[s].cbopen = "before"]
    ELSE [common EXCEPT !.at[s].cbopen = "", !.at[s].res = ResOf(rec), !.at[s].wctr = rec.ctr]
  ELSE IF pt = "step" THEN
    IF enter THEN
      [Chk(common, rec, {<<a.pc = "Sr" /\ a.i <= n /\ rec.label = StepAt(o, s, a.i).label, "C09", "step-code-run-out-of-place">>,
                         <<a.world # 0 /\ rec.world = a.world, "C09", "step-did-not-receive-the-attempts-World">>,
                         <<rec.ctr = a.wctr, "C09", "World-lost-earlier-mutations">>,
                         <<a.cbopen = "", "C09", "user-callbacks-of-one-attempt-overlap">>})
         EXCEPT !.at[s].cbopen = "step"]
    ELSE [common EXCEPT !.at[s].cbopen = "", !.at[s].res = ResOf(rec), !.at[s].wctr = rec.ctr]
  ELSE IF pt = "after" THEN
    IF enter THEN
      LET pcNow == IF a.pc = "S" /\ ~o.cfg.before THEN (IF n = 0 THEN "post" ELSE "steps") ELSE a.pc
          reason == IF pcNow = "Hb" THEN "BeforeHookFailed"
                    ELSE IF pcNow = "Sr"
                         THEN (IF StepAt(o, s, a.i).kind = "ambig" THEN "StepFailed:ambig" ELSE "StepFailed:panic")
                    ELSE IF pcNow = "post" /\ a.skipped THEN "StepSkipped"
                    ELSE IF pcNow = "post" /\ ~a.failed THEN "StepPassed"
                    ELSE "?"
          failedNow == (pcNow = "Hb" /\ a.res.k \in {"panic", "err"})
                       \/ (pcNow = "Sr" /\ (a.res.k \in {"panic", "err"} \/ StepAt(o, s, a.i).kind = "ambig"))
      IN [Chk(common, rec, {<<o.cfg.after, "C09", "after-hook-run-though-none-is-set">>,
                            <<~a.afterCalled, "C09", "after-hook-run-twice">>,
                            <<reason # "?" /\ (pcNow \in {"Hb", "Sr"} => failedNow), "C09", "after-hook-run-before-the-last-executed-step-ended">>,
                            <<rec.reason = reason, "C09", "after-hook-got-a-wrong-finish-reason">>,
                            <<rec.has_world = (a.world # 0), "C09", "after-hook-World-presence">>,
                            <<a.world = 0 \/ (rec.world = a.world /\ rec.ctr = a.wctr), "C09", "after-hook-not-on-the-attempts-World">>,
                            <<a.cbopen = "", "C09", "user-callbacks-of-one-attempt-overlap">>})
            EXCEPT !.at[s].cbopen = "after", !.at[s].afterCalled = TRUE]
    ELSE [common EXCEPT !.at[s].cbopen = "", !.at[s].ares = ResOf(rec)]
  ELSE Chk(common, rec, {<<FALSE, "C09", "unknown-callback">>})

---------------------------------------------------------------------------
(* Hooked internals of the executor loop (C05 delay, C06, C07, C08)        *)

Running(o) == o.ndisp - o.ncomp

\* definitely ready when Features::get began (r0), as opposed to "ready by the time the record was
\* written" (left_us < 0): the work-conservation rule needs the former, its excuses take the latter
ReadyC(q) == {i \in DOMAIN q : q[i].r0}

ObsGet(o, rec) ==
  LET batch == rec.batch
      nb == Len(batch)
      lim == o.cfg.limit
      serialBatch == \E i \in DOMAIN batch : batch[i].serial
      serialRunning == \E s \in Inflight(o) : IsSerial(o, s)
      \* a serial entry that is READY (its retry delay, if any, has elapsed) is waiting for its turn;
      \* a still delayed one is no reason to leave slots empty
      serialWaiting == \E i \in DOMAIN rec.qs : rec.qs[i].left_us < 0
      readyLeft == ReadyC(rec.qc) # {}
      broke == o.trippedH
      wantOK == IF broke THEN rec.want = 0
                ELSE IF lim < 0 THEN rec.want = -1 ELSE rec.want = lim - Running(o)
      \* one-sided: finT is stamped before the runner takes its own `now`
      delayOK(b) == IF b.cur = 0 \/ b.s \notin DOMAIN o.cfg.scen THEN TRUE
                    ELSE rec.t_us - o.at[b.s].finT >= o.cfg.scen[b.s].delay_us
  IN [Chk(o, rec,
        {<<wantOK, "C06", "free-slot-count-wrong">>,
         <<rec.want < 0 \/ nb <= rec.want, "C06", "batch-larger-than-free-slots">>,
         <<~(nb > 1 /\ serialBatch), "C07", "serial-scenario-dispatched-in-a-batch">>,
         <<~serialBatch \/ Running(o) = 0, "C07", "serial-scenario-dispatched-while-others-run">>,
         <<nb = 0 \/ ~serialRunning, "C07", "scenario-dispatched-while-a-serial-one-runs">>,
         <<nb = 0 \/ ~(o.tripped \/ broke), "C08", "scenario-dispatched-after-the-final-failure">>,
         <<\A i \in DOMAIN batch : delayOK(batch[i]), "C05", "retry-dispatched-before-its-delay-elapsed">>,
         \* work conservation: nothing ready is left behind while slots are free
         <<broke \/ o.tripped \/ rec.want = 0 \/ serialBatch \/ serialRunning \/ serialWaiting
             \/ ~readyLeft \/ (rec.want > 0 /\ nb = rec.want),
           "C06", "ready-scenarios-left-waiting-although-slots-are-free">>})
       EXCEPT !.sinceGet = FALSE,
              !.batched = @ \cup {batch[i].id : i \in DOMAIN batch}]

ObsDispatch(o, rec) ==
  LET numeric == o.slots >= 0 /\ rec.slots >= 0 IN   \* -1 unlimited, -2 fail-fast break
  [Chk(o, rec, {<<~numeric \/ rec.slots = o.slots - rec.n, "C06", "slot-counter-not-decremented-by-batch-size">>})
     EXCEPT !.ndisp = @ + rec.n, !.slots = rec.slots, !.sinceGet = FALSE]

ObsCompleted(o, rec) ==
  LET numeric == o.slots >= 0 /\ rec.slots >= 0 IN
  [Chk(o, rec, {<<~numeric \/ rec.slots = o.slots + 1, "C06", "slot-not-freed-on-completion">>})
     EXCEPT !.ncomp = @ + 1, !.slots = rec.slots, !.sinceGet = TRUE]

ObsFin(o, rec) ==
  Chk(o, rec, {<<rec.failed = o.lastFin.failed, "C05", "attempt-failure-flag-contradicts-its-events">>,
               <<rec.retried = o.lastFin.retry, "C05", "retry-decision-not-failed-and-budget-left">>})

ObsBegin(o, rec) ==
  LET known == rec.s \in DOMAIN o.cfg.scen IN
  [Chk(o, rec, {<<~known \/ rec.serial = o.cfg.scen[rec.s].serial, "C07", "scenario-misclassified-serial-or-concurrent">>,
                <<~o.tripped \/ rec.id \in o.mayStart, "C08", "attempt-begun-that-was-not-dispatched-with-the-failing-one">>})
     EXCEPT !.begun = @ \cup {rec.id}]

ObsQuiescent(o, rec) ==
  Chk(o, rec, {<<~o.sinceGet, "C06", "executor-parked-without-refilling-after-a-completion">>})

ObsSilenced(o, rec) ==
  [Chk(o, rec, {<<rec.limit = o.cfg.limit, "C18", "concurrency-limit-resolution">>,
                <<rec.fail_fast = o.cfg.fail_fast, "C18", "fail-fast-resolution">>})
     EXCEPT !.hookSilent = TRUE]

ObsPost(o, rec) ==
  Chk(o, rec, {<<rec.sentinel_calls = 0, "C10", "panic-hook-invoked-during-the-run">>,
               <<rec.hook_restored, "C10", "panic-hook-not-restored-after-the-run">>,
               <<~rec.hung, "C04", "run-did-not-terminate">>})

FinalFailure(o) == o.nperr > 0 \/ o.ffail

ObsVerdict(o, rec) ==
  LET fos == rec.fos
      expected == FinalFailure(o) \/ (fos /\ o.skipfail)
      \* known shape F1: reported failed although nothing failed finally, and
      \* the only failure counted is a hook failure of an attempt that was retried
      \* (behind FailOnSkipped a skipped step of such a retried attempt is counted failed too)
      f1 == rec.failed /\ ~expected /\ o.retriedHookF
            /\ (rec.failed_steps = 0 \/ (fos /\ o.retriedHookSkip))
            /\ rec.parsing_errors = 0 /\ rec.hook_errors > 0
  IN Chk(o, rec, {<<rec.writer_panic = "", "C01", "writer-pipeline-panicked">>,
                  <<rec.writer_panic # "" \/ rec.failed = expected \/ f1, "C01", "verdict-differs-from-final-failure">>,
                  <<~f1, "C01", "run-failed-only-by-hook-failure-of-a-retried-attempt">>,
                  \* `run_and_exit` (driven through the real Cucumber event loop) panics iff the
                  \* statistics writer says the execution has failed
                  <<rec.writer_panic # "" \/ rec.exit_failed = rec.failed, "C01",
                    "run_and_exit-does-not-follow-the-statistics-verdict">>})

---------------------------------------------------------------------------
Obs(o, rec) ==
  LET kind == rec.kind IN
  CASE kind = "ev" ->
         (CASE rec.t = "Started" -> ObsRunStarted(o, rec)
            [] rec.t = "Finished" -> ObsRunFinished(o, rec)
            [] rec.t = "FeatS" -> ObsFeatS(o, rec)
            [] rec.t = "FeatF" -> ObsFeatF(o, rec)
            [] rec.t = "RuleS" -> ObsRuleS(o, rec)
            [] rec.t = "RuleF" -> ObsRuleF(o, rec)
            [] rec.t = "Sc" -> ObsSc(o, rec)
            [] OTHER -> Chk(o, rec, {<<FALSE, "C03", "unknown-event">>}))
    [] kind = "perr" -> ObsParseErr(o, rec)
    [] kind = "pfin" -> ObsParsingFinished(o, rec)
    [] kind = "insert" -> ObsInsert(o, rec)
    [] kind = "cb" -> ObsCb(o, rec)
    [] kind = "get" -> ObsGet(o, rec)
    [] kind = "dispatch" -> ObsDispatch(o, rec)
    [] kind = "completed" -> ObsCompleted(o, rec)
    [] kind = "fin" -> ObsFin(o, rec)
    [] kind = "begin" -> ObsBegin(o, rec)
    [] kind = "trip" -> [Chk(o, rec, {<<o.tripped, "C08", "fail-fast-tripped-without-a-final-failure">>})
                           EXCEPT !.trippedH = TRUE]
    [] kind = "quiescent" -> ObsQuiescent(o, rec)
    [] kind = "hook_silenced" -> ObsSilenced(o, rec)
    [] kind = "hook_restored" -> [o EXCEPT !.hookRestored = TRUE]
    [] kind = "end" -> ObsEnd(o, rec)
    [] kind = "hang" -> Chk(o, rec, {<<FALSE, "C04", "run-did-not-terminate">>})
    [] kind = "stuck" -> Chk(o, rec, {<<FALSE, "C04", "run-did-not-terminate">>})
    [] kind = "escaped" -> Chk(o, rec, {<<FALSE, "C10", "panic-escaped-the-run">>})
    [] kind = "rxdiff" -> Chk(o, rec, {<<FALSE, "C03", "received-stream-differs-from-what-was-sent">>})
    [] kind = "post" -> ObsPost(o, rec)
    [] kind = "verdict" -> ObsVerdict(o, rec)
    [] kind = "idle" -> [o EXCEPT !.sinceGet = FALSE]
    [] OTHER -> o        \* enqueue, drained, open, slept: no rule attached
=============================================================================
