//! Replays of TLC-generated vectors into the pure(ish) functions of the
//! crate: retry-option resolution (C18), filtering (C15), step matching
//! (C17), outline expansion (C16).

use std::{
    cell::RefCell,
    rc::Rc,
    sync::{Arc, Mutex},
    time::Duration,
};

use cucumber::{
    Runner as _,
    event::Cucumber,
    runner::{self, basic::RetryOptions},
};
use futures::{StreamExt as _, stream};
use serde_json::{Value, json};

use crate::{
    universe::{FeatureSpec, RuleSpec, ScenarioSpec},
    writers::RWorld,
};

fn tag_of(t: &Value) -> Option<String> {
    let n = t["n"].as_i64().unwrap_or(-2);
    let d = t["d"].as_i64().unwrap_or(-2);
    if n == -2 {
        return None;
    }
    let mut s = "retry".to_owned();
    if n >= 0 {
        s.push_str(&format!("({n})"));
    }
    if d >= 0 {
        // composite durations for the larger values
        match d {
            90 => s.push_str(".after(1m30s)"),
            120 => s.push_str(".after(2min)"),
            _ => s.push_str(&format!(".after({d}s)")),
        }
    }
    Some(s)
}

fn opt(v: &Value) -> Option<u64> {
    v.as_i64().filter(|x| *x >= 0).map(|x| x as u64)
}

thread_local! {
    static SILENCED: RefCell<Option<(i64, bool)>> = const { RefCell::new(None) };
}

fn sink(kind: &'static str, fields: String) {
    if kind == "hook_silenced" {
        if let Ok(v) = serde_json::from_str::<Value>(&format!("{{{fields}}}")) {
            SILENCED.with(|s| {
                *s.borrow_mut() = Some((
                    v["limit"].as_i64().unwrap_or(-9),
                    v["fail_fast"].as_bool().unwrap_or(false),
                ));
            });
        }
    }
}

/// C18: one vector through `Runner::run`.
pub fn retry_vector(l: &Value) -> Value {
    let v = &l["vec"];
    let has_rule = v["hasRule"].as_bool().unwrap_or(false);
    let flt = v["fltLevel"].as_str().unwrap_or("none");
    let tags = |level: &str, t: &Value| {
        // an unrelated tag first: the retry tag is not the first tag
        let mut out: Vec<String> = vec!["other".to_owned()];
        out.extend(tag_of(t));
        if flt == level {
            out.push("flt".into());
        }
        out
    };
    let scen = ScenarioSpec {
        name: "S1".into(),
        display: None,
        tags: tags("s", &v["ts"]),
        steps: vec![],
    };
    let spec = FeatureSpec {
        name: "F1".into(),
        tags: tags("f", &v["tf"]),
        bg: vec![],
        path: true,
        scenarios: if has_rule { vec![] } else { vec![scen.clone()] },
        rules: if has_rule {
            vec![RuleSpec {
                name: "R1".into(),
                tags: tags("r", &v["tr"]),
                bg: vec![],
                scenarios: vec![scen],
            }]
        } else {
            vec![]
        },
    };
    let feature = spec.build();

    let seen: Arc<Mutex<Option<Value>>> = Arc::new(Mutex::new(None));
    let seen2 = Arc::clone(&seen);
    let mut basic = runner::Basic::<RWorld>::default()
        .retries(opt(&v["bldRetry"]).map(|x| x as usize))
        .retry_after(opt(&v["bldAfter"]).map(Duration::from_secs));
    if v["bldFilter"] == true {
        basic = basic.retry_filter(Some("not @flt".parse().unwrap()));
    }
    match v["bldConc"].as_i64().unwrap_or(0) {
        0 => {}
        -1 => basic = basic.max_concurrent_scenarios(None),
        n => basic = basic.max_concurrent_scenarios(Some(n as usize)),
    }
    if v["bldFF"] == true {
        basic = basic.fail_fast();
    }
    let basic = basic.retry_options(move |f, r, s, cli| {
        let res = RetryOptions::parse_from_tags(f, r, s, cli);
        *seen2.lock().unwrap() = Some(json!({
            "some": res.is_some(),
            "retries": res.map_or(0, |o| o.retries.left),
            "after": res.and_then(|o| o.after).map_or(-1, |d| d.as_secs() as i64),
            "cli_retry": cli.retry.map_or(-1, |x| x as i64),
            "cli_after": cli.retry_after.map_or(-1, |d| d.as_secs() as i64),
            "cli_filter": cli.retry_tag_filter.is_some(),
        }));
        res
    });
    let cli = runner::basic::Cli {
        concurrency: opt(&v["cliConc"]).map(|x| x as usize),
        fail_fast: v["cliFF"] == true,
        retry: opt(&v["cliRetry"]).map(|x| x as usize),
        retry_after: opt(&v["cliAfter"]).map(Duration::from_secs),
        retry_tag_filter: (v["cliFilter"] == true)
            .then(|| "@flt".parse().unwrap()),
    };
    SILENCED.with(|s| *s.borrow_mut() = None);
    cucumber::verif::set_sink(Some(Box::new(sink)));
    let st = basic.run(stream::iter(vec![Ok(feature)]), cli);
    let items: Vec<_> = futures::executor::block_on(st.collect::<Vec<_>>());
    cucumber::verif::set_sink(None);
    let mut ev = json!({"ev_retr": false, "ev_cur": 0, "ev_left": 0});
    for it in &items {
        let d = crate::evjson::describe(it);
        if d["t"] == "Sc" && d["k"] == "Started" {
            ev = json!({"ev_retr": d["retr"], "ev_cur": d["cur"], "ev_left": d["left"]});
            break;
        }
    }
    let _: Option<&Cucumber<RWorld>> = None;
    let mut actual = seen.lock().unwrap().clone().unwrap_or(json!({
        "some": false, "retries": 0, "after": -1,
        "cli_retry": -1, "cli_after": -1, "cli_filter": false,
    }));
    let (limit, ff) = SILENCED.with(|s| s.borrow().unwrap_or((-9, false)));
    actual["limit"] = json!(limit);
    actual["fail_fast"] = json!(ff);
    for k in ["ev_retr", "ev_cur", "ev_left"] {
        actual[k] = ev[k].clone();
    }
    json!({"actual": actual})
}

#[allow(dead_code)]
fn unused(_: Rc<()>) {}

// ------------------------------------------------------------- C15 ----

use cucumber::{Cucumber as CucumberApp, Event, Parser, cli, parser};
use futures::stream::LocalBoxStream;

struct FixedParser(Vec<gherkin::Feature>);

impl Parser<()> for FixedParser {
    type Cli = cli::Empty;
    type Output = stream::Iter<std::vec::IntoIter<parser::Result<gherkin::Feature>>>;

    fn parse(self, (): (), _: cli::Empty) -> Self::Output {
        stream::iter(self.0.into_iter().map(Ok).collect::<Vec<_>>())
    }
}

struct RecRunner(Rc<RefCell<Vec<Value>>>);

impl cucumber::Runner<RWorld> for RecRunner {
    type Cli = cli::Empty;
    type EventStream =
        LocalBoxStream<'static, parser::Result<Event<Cucumber<RWorld>>>>;

    fn run<S>(self, features: S, _: cli::Empty) -> Self::EventStream
    where
        S: futures::Stream<Item = parser::Result<gherkin::Feature>> + 'static,
    {
        let log = self.0;
        features
            .filter_map(move |f| {
                if let Ok(f) = &f {
                    // scenarios are identified by their marker tag `id_<S>`
                    // (their names need not be unique)
                    let names = |scs: &[gherkin::Scenario]| {
                        scs.iter()
                            .map(|s| {
                                s.tags
                                    .iter()
                                    .find_map(|t| t.strip_prefix("id_"))
                                    .unwrap_or(&s.name)
                                    .to_owned()
                            })
                            .collect::<Vec<_>>()
                    };
                    log.borrow_mut().push(json!({
                        "name": f.name, "tags": f.tags,
                        "nbg": f.background.as_ref().map_or(0, |b| b.steps.len()),
                        "scenarios": names(&f.scenarios),
                        "rules": f.rules.iter().map(|r| json!({
                            "name": r.name, "tags": r.tags,
                            "nbg": r.background.as_ref().map_or(0, |b| b.steps.len()),
                            "scenarios": names(&r.scenarios),
                        })).collect::<Vec<_>>(),
                    }));
                }
                futures::future::ready(None)
            })
            .boxed_local()
    }
}

fn render_expr(e: &Value) -> String {
    match e["op"].as_str().unwrap_or("") {
        "tag" => format!("@{}", e["t"].as_str().unwrap_or("")),
        "not" => format!("(not {})", render_expr(&e["a"])),
        "and" => format!("({} and {})", render_expr(&e["a"]), render_expr(&e["b"])),
        "or" => format!("({} or {})", render_expr(&e["a"]), render_expr(&e["b"])),
        other => panic!("harness: unknown tag operation {other}"),
    }
}

fn str_set(v: &Value) -> Vec<String> {
    v.as_array()
        .map(|a| a.iter().filter_map(|x| x.as_str().map(str::to_owned)).collect())
        .unwrap_or_default()
}

/// C15: one vector through `Cucumber::filter_run`.
pub fn filter_vector(specs: &[FeatureSpec], l: &Value) -> Value {
    let v = &l["vec"];
    let mut features: Vec<gherkin::Feature> =
        specs.iter().map(FeatureSpec::build).collect();
    // every scenario carries its id as a tag; with `dup` some scenarios of one
    // feature / rule share their displayed name, as the rows of an outline do
    let dup = v["dup"] == true;
    // (only with `dup`: otherwise scenarios keep exactly their own tags - some
    // have none at all - and are identified by their unique names)
    let mark = |s: &mut gherkin::Scenario| {
        if dup {
            s.tags.push(format!("id_{}", s.name));
        }
        if dup {
            match s.name.as_str() {
                "S2" => s.name = "S1".into(),
                "S4" => s.name = "S3".into(),
                "S7" => s.name = "S6".into(),
                _ => {}
            }
        }
    };
    for f in &mut features {
        f.scenarios.iter_mut().for_each(mark);
        for r in &mut f.rules {
            r.scenarios.iter_mut().for_each(mark);
        }
    }
    let log = Rc::new(RefCell::new(Vec::new()));
    let re_set = str_set(&v["reSet"]);
    let closure_set = str_set(&v["closure"]);
    let re = (v["useRe"] == true).then(|| {
        // the names of a feature and of a rule are always among the
        // alternatives: the regex is about SCENARIO names, so they select
        // nothing
        let mut alt = re_set.clone();
        alt.push("F1".to_owned());
        alt.push("R1".to_owned());
        regex::Regex::new(&format!("^(?:{})$", alt.join("|"))).unwrap()
    });
    let text = render_expr(&v["expr"]);
    let tags = (v["useTags"] == true).then(|| {
        text.parse::<gherkin::tagexpr::TagOperation>()
            .unwrap_or_else(|e| panic!("harness: cannot parse {text}: {e}"))
    });
    let opts = cli::Opts {
        re_filter: re,
        tags_filter: tags,
        parser: cli::Empty,
        runner: cli::Empty,
        writer: cli::Empty,
        custom: cli::Empty,
    };
    let app = CucumberApp::<RWorld, _, (), _, _, cli::Empty>::custom(
        FixedParser(features),
        RecRunner(Rc::clone(&log)),
        cucumber::writer::AssertNormalized::new(crate::writers::RecW::default()),
    )
    .with_cli(opts);
    let _wr = futures::executor::block_on(app.filter_run(
        (),
        move |_: &gherkin::Feature,
              _: Option<&gherkin::Rule>,
              s: &gherkin::Scenario| {
            let id = s
                .tags
                .iter()
                .find_map(|t| t.strip_prefix("id_"))
                .unwrap_or(&s.name);
            closure_set.iter().any(|c| c == id)
        },
    ));
    // The same vector once more through `runner::Basic`, as an application
    // would write it: the CLI options first, the hooks added afterwards with
    // the `Cucumber` builder.  Which scenarios get started?
    let started = {
        let mut features: Vec<gherkin::Feature> =
            specs.iter().map(FeatureSpec::build).collect();
        for f in &mut features {
            f.scenarios.iter_mut().for_each(mark);
            for r in &mut f.rules {
                r.scenarios.iter_mut().for_each(mark);
            }
        }
        let re_set = str_set(&v["reSet"]);
        let closure_set = str_set(&v["closure"]);
        let re = (v["useRe"] == true).then(|| {
            let mut alt = re_set.clone();
            alt.push("F1".to_owned());
            alt.push("R1".to_owned());
            regex::Regex::new(&format!("^(?:{})$", alt.join("|"))).unwrap()
        });
        let tags = (v["useTags"] == true).then(|| {
            text.parse::<gherkin::tagexpr::TagOperation>().unwrap()
        });
        let rec = crate::writers::RecW::default();
        let wlog = Rc::clone(&rec.log);
        let app = CucumberApp::<RWorld, _, (), _, _, cli::Empty>::custom(
            FixedParser(features),
            cucumber::runner::Basic::<RWorld>::default(),
            cucumber::writer::AssertNormalized::new(rec),
        )
        .with_cli(cli::Opts {
            re_filter: re,
            tags_filter: tags,
            parser: cli::Empty,
            runner: cucumber::runner::basic::Cli::default(),
            writer: cli::Empty,
            custom: cli::Empty,
        })
        .before(|_, _, _, _| Box::pin(async {}))
        .after(|_, _, _, _, _| Box::pin(async {}));
        let _wr = futures::executor::block_on(app.filter_run(
            (),
            move |_: &gherkin::Feature,
                  _: Option<&gherkin::Rule>,
                  s: &gherkin::Scenario| {
                let id = s
                    .tags
                    .iter()
                    .find_map(|t| t.strip_prefix("id_"))
                    .unwrap_or(&s.name);
                closure_set.iter().any(|c| c == id)
            },
        ));
        let mut ids: Vec<String> = wlog
            .borrow()
            .iter()
            .filter_map(|l| l.get("ev"))
            .filter(|e| e["t"] == "Sc" && e["k"] == "Started")
            .filter_map(|e| e["s"].as_str().map(str::to_owned))
            .collect();
        ids.sort();
        ids
    };
    json!({"received": Value::Array(log.borrow().clone()), "expr_text": text,
           "started": started})
}

// ------------------------------------------------------------- C17 ----

use cucumber::step;
use futures::future::LocalBoxFuture;

macro_rules! stepfns {
    ($($name:ident),*) => {
        $(fn $name(_: &mut RWorld, _: step::Context) -> LocalBoxFuture<'_, ()> {
            Box::pin(async {})
        })*
        const STEP_FNS: &[step::Step<RWorld>] = &[$($name),*];
    };
}
stepfns!(sf0, sf1, sf2, sf3, sf4, sf5, sf6, sf7, sf8, sf9, sf10, sf11);

fn mk_loc(n: i64) -> Option<step::Location> {
    (n > 0).then(|| step::Location {
        path: "harness/defs.rs",
        line: n as u32,
        column: 1,
    })
}

/// C17: registers the definitions in the given order and looks up every
/// (keyword, text).
pub fn stepmatch_vector(l: &Value) -> Value {
    let regexes = l["regexes"].as_object().unwrap();
    let texts = l["texts"].as_object().unwrap();
    // cross-check the TLA+ match table against the `regex` crate
    let mut table_ok = true;
    for row in l["table"].as_array().unwrap() {
        let re = regex::Regex::new(regexes[row["re"].as_str().unwrap()].as_str().unwrap())
            .unwrap();
        let t = texts[row["t"].as_str().unwrap()].as_str().unwrap();
        let caps = re.captures(t);
        if caps.is_some() != (row["matches"] == true) {
            table_ok = false;
        }
        if let Some(c) = caps {
            let names: Vec<Option<&str>> = re.capture_names().collect();
            let got: Vec<Value> = (1..c.len())
                .map(|i| {
                    json!({"name": names[i].unwrap_or(""),
                           "val": c.get(i).map_or("", |m| m.as_str())})
                })
                .collect();
            if Value::Array(got) != row["groups"] {
                table_ok = false;
            }
            if row["whole"].as_str() != c.get(0).map(|m| m.as_str()) {
                table_ok = false;
            }
        }
    }
    let regs = l["regs"].as_array().unwrap();
    let mut coll = step::Collection::<RWorld>::new();
    let mut fn_of: Vec<(String, String, i64)> = Vec::new();
    for (i, d) in regs.iter().enumerate() {
        let kw = d["kw"].as_str().unwrap();
        let re_id = d["re"].as_str().unwrap();
        let loc = d["loc"].as_i64().unwrap_or(0);
        let re = regex::Regex::new(regexes[re_id].as_str().unwrap()).unwrap();
        let f = STEP_FNS[i];
        coll = match kw {
            "Given" => coll.given(mk_loc(loc), re, f),
            "When" => coll.when(mk_loc(loc), re, f),
            _ => coll.then(mk_loc(loc), re, f),
        };
        fn_of.push((kw.to_owned(), re_id.to_owned(), loc));
    }
    let re_id_of = |pattern: &str| {
        regexes
            .iter()
            .find(|(_, p)| p.as_str() == Some(pattern))
            .map_or_else(String::new, |(k, _)| k.clone())
    };
    let mut finds = Vec::new();
    for kw in ["Given", "When", "Then"] {
        for (tid, t) in texts {
            let stepobj = gherkin::Step {
                keyword: kw.to_owned(),
                ty: match kw {
                    "Given" => gherkin::StepType::Given,
                    "When" => gherkin::StepType::When,
                    _ => gherkin::StepType::Then,
                },
                value: t.as_str().unwrap().to_owned(),
                docstring: None,
                table: None,
                span: gherkin::Span { start: 0, end: 0 },
                position: gherkin::LineCol { line: 1, col: 1 },
            };
            let r = match coll.find(&stepobj) {
                Ok(None) => json!({"res":"none","cands":[],"re":"","loc":0,"whole":"","groups":[]}),
                Ok(Some((f, _caps, loc, ctx))) => {
                    let idx = STEP_FNS.iter().position(|g| std::ptr::fn_addr_eq(*g, *f));
                    let (re, l0) = idx
                        .and_then(|i| fn_of.get(i))
                        .map_or((String::new(), -1), |x| (x.1.clone(), x.2));
                    let whole = ctx.matches.first().map_or("", |m| m.1.as_str()).to_owned();
                    let groups: Vec<Value> = ctx.matches.iter().skip(1)
                        .map(|(n, v)| json!({"name": n.clone().unwrap_or_default(), "val": v}))
                        .collect();
                    let loc_n = loc.map_or(0, |l| i64::from(l.line));
                    json!({"res":"one","cands":[],"re":re,
                           "loc": if l0 == loc_n { loc_n } else { -1 },
                           "whole":whole,"groups":groups})
                }
                Err(e) => {
                    let cands: Vec<Value> = e.possible_matches.iter()
                        .map(|(re, loc)| json!({"re": re_id_of(re.as_str()),
                                                "loc": loc.map_or(0, |l| i64::from(l.line))}))
                        .collect();
                    json!({"res":"ambiguous","cands":cands,"re":"","loc":0,"whole":"","groups":[]})
                }
            };
            let mut r = r;
            r["kw"] = json!(kw);
            r["t"] = json!(tid);
            finds.push(r);
        }
    }
    json!({"finds": finds, "table_ok": table_ok})
}

// ------------------------------------------------------------- C16 ----

const SEP: char = '\u{241F}';

fn render_toks(t: &Value) -> String {
    t.as_array()
        .unwrap()
        .iter()
        .map(|x| {
            let v = x["v"].as_str().unwrap_or("");
            if x["k"] == "lit" { format!("{SEP}{v}{SEP}") } else { format!("<{v}>") }
        })
        .collect()
}

fn split_pieces(s: &str) -> Vec<String> {
    s.split(SEP).filter(|p| !p.is_empty()).map(str::to_owned).collect()
}

fn render_scenario(o: &mut String, ind: &str, sc: &Value) {
    let tags = str_set(&sc["tags"]);
    if !tags.is_empty() {
        o.push_str(&format!(
            "{ind}{}\n",
            tags.iter().map(|t| format!("@{t}")).collect::<Vec<_>>().join(" ")
        ));
    }
    let tables = sc["tables"].as_array().unwrap();
    let kw = if tables.is_empty() { "Scenario" } else { "Scenario Outline" };
    o.push_str(&format!("{ind}{kw}: {}\n", render_toks(&sc["name"])));
    for st in sc["steps"].as_array().unwrap() {
        o.push_str(&format!("{ind}  Given {}\n", render_toks(&st["text"])));
        let doc = st["doc"].as_array().unwrap();
        if !doc.is_empty() {
            o.push_str(&format!(
                "{ind}    \"\"\"\n{ind}    {}\n{ind}    \"\"\"\n",
                render_toks(&st["doc"])
            ));
        }
        let cells = st["cells"].as_array().unwrap();
        if !cells.is_empty() {
            // several rows: two cells per row if their number is even, one
            // per row otherwise (the projection flattens the table again)
            let w = if cells.len() % 2 == 0 { 2 } else { 1 };
            for row in cells.chunks(w) {
                o.push_str(&format!(
                    "{ind}    | {} |\n",
                    row.iter().map(render_toks).collect::<Vec<_>>().join(" | ")
                ));
            }
        }
    }
    for tb in tables {
        let tt = str_set(&tb["tags"]);
        if !tt.is_empty() {
            o.push_str(&format!(
                "{ind}  {}\n",
                tt.iter().map(|t| format!("@{t}")).collect::<Vec<_>>().join(" ")
            ));
        }
        o.push_str(&format!("{ind}  Examples:\n"));
        o.push_str(&format!("{ind}    | {} |\n", str_set(&tb["header"]).join(" | ")));
        for row in tb["rows"].as_array().unwrap() {
            o.push_str(&format!(
                "{ind}    | {} |\n",
                row.as_array()
                    .unwrap()
                    .iter()
                    .map(|v| format!("{SEP}{}{SEP}", v.as_str().unwrap_or("")))
                    .collect::<Vec<_>>()
                    .join(" | ")
            ));
        }
    }
}

fn scen_json(s: &gherkin::Scenario) -> Value {
    json!({
        "name": split_pieces(&s.name),
        "tags": s.tags,
        "steps": s.steps.iter().map(|st| json!({
            "text": split_pieces(&st.value),
            "doc": st.docstring.as_deref().map(|d| split_pieces(d.trim())).unwrap_or_default(),
            "cells": st.table.as_ref().map(|t| t.rows.iter().flatten()
                        .map(|c| split_pieces(c)).collect::<Vec<_>>()).unwrap_or_default(),
        })).collect::<Vec<_>>(),
        "line": s.position.line, "col": s.position.col,
    })
}

/// C16: renders the vector to Gherkin, parses and expands it.
pub fn outline_vector(l: &Value, tmpdir: &std::path::Path) -> Value {
    use cucumber::feature::Ext as _;
    let f = &l["feature"];
    let mut text = String::from("Feature: O\n");
    for sc in f["scenarios"].as_array().unwrap() {
        render_scenario(&mut text, "  ", sc);
    }
    let rsc = f["ruleScenarios"].as_array().unwrap();
    if !rsc.is_empty() {
        text.push_str("  Rule: R\n");
        for sc in rsc {
            render_scenario(&mut text, "    ", sc);
        }
    }
    let parsed = gherkin::Feature::parse(&text, gherkin::GherkinEnv::default())
        .unwrap_or_else(|e| panic!("harness: cannot parse rendered outline: {e}\n{text}"));
    let project = |r: Result<gherkin::Feature, String>| match r {
        Err(name) => json!({"error": true, "name": name, "scenarios": [], "ruleScenarios": []}),
        Ok(f) => json!({
            "error": false, "name": "",
            "scenarios": f.scenarios.iter().map(scen_json).collect::<Vec<_>>(),
            "ruleScenarios": f.rules.first().map(|r| r.scenarios.iter().map(scen_json)
                .collect::<Vec<_>>()).unwrap_or_default(),
        }),
    };
    let direct = project(parsed.expand_examples().map_err(|e| e.name));
    // the same through parser::Basic on a file
    let path = tmpdir.join("o.feature");
    std::fs::write(&path, &text).unwrap();
    let items: Vec<_> = futures::executor::block_on(
        cucumber::Parser::parse(
            cucumber::parser::Basic::new(),
            path.clone(),
            cucumber::parser::basic::Cli::default(),
        )
        .collect::<Vec<_>>(),
    );
    let via = match items.into_iter().next() {
        Some(Ok(f)) => project(Ok(f)),
        Some(Err(parser::Error::ExampleExpansion(e))) => project(Err(e.name.clone())),
        Some(Err(e)) => json!({"error": true, "name": format!("other: {e}")}),
        None => json!({"error": true, "name": "no item"}),
    };
    let mut actual = direct.clone();
    actual["via_parser_same"] = json!(via == direct);
    json!({"actual": actual, "text": text})
}
