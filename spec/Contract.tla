------------------------------ MODULE Contract ------------------------------
(***************************************************************************)
(* Generator of ALL event streams allowed by the Runner ordering contract  *)
(* (src/runner/mod.rs, "Order guarantees"): events are sourced in a        *)
(* happened-before order -- run Started first, a feature's Started before  *)
(* its content, a rule's bracket inside its feature's, an attempt's        *)
(* Started before and its Finished after its other events, attempt k       *)
(* before attempt k+1 -- and otherwise events of different scenarios,      *)
(* rules and features interleave freely.  Parser errors and                *)
(* ParsingFinished may come at any point (also before run Started, as      *)
(* runner::Basic really does).  This includes streams runner::Basic never  *)
(* produces today (late Rule::Started, interleaved feature brackets,       *)
(* arbitrarily delayed Finished brackets) -- the freedom C11 quantifies    *)
(* over.                                                                   *)
(*                                                                         *)
(* Attempts are abstracted to  Started, Body x (StepS, StepP|StepF),       *)
(* Finished.  Scenario s fails its first Fails[s] attempts; a failed       *)
(* attempt with retries left is followed by attempt k+1.                   *)
(***************************************************************************)
EXTENDS Events

CONSTANTS U,          \* universe (see Events.tla)
          Fails,      \* [scenario name -> number of failing attempts]
          Body,       \* number of steps per attempt (0..)
          MaxErr,     \* number of parser errors emitted (0..)
          EarlyClose, \* TRUE: brackets may close with scenarios left (fail-fast)
          FreeImm     \* TRUE: parser errors / ParsingFinished at any point;
                      \* FALSE: only before run Started (keeps big universes small)

VARIABLES cst,   \* "new" | "run" | "done"
          fst,   \* [feature -> "new" | "open" | "closed"]
          rst,   \* [<<feature, rule>> -> "new" | "open" | "closed"]
          sst,   \* [scenario -> [ph, att, idx]], ph: "new"|"run"|"wait"|"done"
          nerr,  \* parser errors emitted so far
          pfin,  \* ParsingFinished emitted
          ev     \* the event emitted by the last step

cvars == <<cst, fst, rst, sst, nerr, pfin, ev>>

Budget(s) ==
  LET tags == ScenRec(U, s).spec.tags IN
  IF HasTag(tags, "retry(1)") THEN 1
  ELSE IF HasTag(tags, "retry(2)") THEN 2
  ELSE IF HasTag(tags, "retry(3)") THEN 3 ELSE -1

RetriesOf(s, att) ==
  IF Budget(s) < 0 THEN NoRetries ELSE Retries(att, Budget(s) - att)

AttLen == 2 + 2 * Body          \* events per attempt
AttFails(s, att) == att < Fails[s]

\* idx-th event (1-based) of attempt att of scenario s
AttEvent(s, att, idx) ==
  LET x == ScenRec(U, s)   rt == RetriesOf(s, att)
      mk(k, i, err) == EvSc(x.f, x.r, s, rt, k, "", i, err)
  IN IF idx = 1 THEN mk("Started", 0, "")
     ELSE IF idx = AttLen THEN mk("Finished", 0, "")
     ELSE LET i == (idx) \div 2      \* step number 1..Body
          IN IF idx % 2 = 0 THEN mk("StepS", i, "")
             ELSE IF AttFails(s, att) /\ i = Body
                  THEN mk("StepF", i, "panic") ELSE mk("StepP", i, "")

RulePairs == {<<f, r>> : f \in FeatNames(U), r \in UNION {RuleNames(U, g) : g \in FeatNames(U)}}
RealRulePairs == {p \in RulePairs : p[2] \in RuleNames(U, p[1])}

CInit ==
  /\ cst = "new"
  /\ fst = [f \in FeatNames(U) |-> "new"]
  /\ rst = [p \in RealRulePairs |-> "new"]
  /\ sst = [s \in ScenNames(U) |-> [ph |-> "new", att |-> 0, idx |-> 0]]
  /\ nerr = 0
  /\ pfin = FALSE
  /\ ev = EvStarted    \* placeholder, never read before the first step

Idle(s) == sst[s].ph \in {"new", "done"} \/ (EarlyClose /\ sst[s].ph = "wait")
Complete(s) == IF EarlyClose THEN Idle(s) ELSE sst[s].ph = "done"

\* Each action sets ev' to the emitted event.
CStart ==
  /\ cst = "new" /\ (FreeImm \/ pfin) /\ cst' = "run" /\ ev' = EvStarted
  /\ UNCHANGED <<fst, rst, sst, nerr, pfin>>

CErr ==
  /\ ~pfin /\ nerr < MaxErr /\ cst # "done" /\ (FreeImm \/ cst = "new")
  /\ nerr' = nerr + 1 /\ ev' = EvParseErr(nerr + 1)
  /\ UNCHANGED <<cst, fst, rst, sst, pfin>>

CPFin ==
  /\ ~pfin /\ nerr = MaxErr /\ cst # "done" /\ (FreeImm \/ cst = "new")
  /\ pfin' = TRUE /\ ev' = EvParsingFinished
  /\ UNCHANGED <<cst, fst, rst, sst, nerr>>

CFeatS == \E f \in FeatNames(U) :
  /\ cst = "run" /\ fst[f] = "new"
  /\ fst' = [fst EXCEPT ![f] = "open"] /\ ev' = EvFeatS(f)
  /\ UNCHANGED <<cst, rst, sst, nerr, pfin>>

CRuleS == \E p \in RealRulePairs :
  /\ fst[p[1]] = "open" /\ rst[p] = "new"
  /\ rst' = [rst EXCEPT ![p] = "open"] /\ ev' = EvRuleS(p[1], p[2])
  /\ UNCHANGED <<cst, fst, sst, nerr, pfin>>

ParentOpen(s) ==
  LET x == ScenRec(U, s) IN
  fst[x.f] = "open" /\ (IF x.r = "" THEN TRUE ELSE rst[<<x.f, x.r>>] = "open")

CSc == \E s \in ScenNames(U) :
  LET st == sst[s] IN
  /\ ParentOpen(s)
  /\ \/ /\ st.ph \in {"new", "wait"}          \* start (next) attempt
        /\ ev' = AttEvent(s, st.att, 1)
        /\ sst' = [sst EXCEPT ![s] = [ph |-> "run", att |-> st.att, idx |-> 1]]
     \/ /\ st.ph = "run" /\ st.idx + 1 < AttLen
        /\ ev' = AttEvent(s, st.att, st.idx + 1)
        /\ sst' = [sst EXCEPT ![s].idx = st.idx + 1]
     \/ /\ st.ph = "run" /\ st.idx + 1 = AttLen   \* attempt Finished
        /\ ev' = AttEvent(s, st.att, AttLen)
        /\ sst' = [sst EXCEPT ![s] =
             IF AttFails(s, st.att) /\ Budget(s) - st.att > 0
             THEN [ph |-> "wait", att |-> st.att + 1, idx |-> 0]
             ELSE [ph |-> "done", att |-> st.att, idx |-> 0]]
  /\ UNCHANGED <<cst, fst, rst, nerr, pfin>>

CRuleF == \E p \in RealRulePairs :
  /\ rst[p] = "open"
  /\ \A s \in ScenOfRule(U, p[1], p[2]) : Complete(s)
  /\ rst' = [rst EXCEPT ![p] = "closed"] /\ ev' = EvRuleF(p[1], p[2])
  /\ UNCHANGED <<cst, fst, sst, nerr, pfin>>

CFeatF == \E f \in FeatNames(U) :
  /\ fst[f] = "open"
  /\ \A s \in ScenOfFeat(U, f) : Complete(s)
  /\ \A r \in RuleNames(U, f) :
        IF EarlyClose \/ ScenOfRule(U, f, r) = {}
        THEN rst[<<f, r>>] # "open" ELSE rst[<<f, r>>] = "closed"
  /\ fst' = [fst EXCEPT ![f] = "closed"] /\ ev' = EvFeatF(f)
  /\ UNCHANGED <<cst, rst, sst, nerr, pfin>>

CFin ==
  /\ cst = "run"
  /\ \A f \in FeatNames(U) :
        IF EarlyClose \/ ScenOfFeat(U, f) = {}
        THEN fst[f] # "open" ELSE fst[f] = "closed"
  /\ cst' = "done" /\ ev' = EvFinished
  /\ UNCHANGED <<fst, rst, sst, nerr, pfin>>

CNext ==
  \/ CStart \/ CErr \/ CPFin \/ CFeatS \/ CRuleS
  \/ CSc \/ CRuleF \/ CFeatF \/ CFin

CDone == cst = "done" /\ pfin
=============================================================================
