SPECIFICATION Spec
CONSTANTS
  U <- UA
  Fails <- Fails1
  Body = 1
  MaxErr = 1
  EarlyClose = FALSE
  FreeImm = TRUE
INVARIANTS Dump
CHECK_DEADLOCK FALSE
