//! C19: a zoo of `#[given]/#[when]/#[then]` functions (sync/async, unit/Result,
//! typed args, slice, `#[step]`, literal/regex/expr, custom `Parameter`,
//! several attributes on one fn).  Its abstract description is Codegen.tla.

use cucumber::{Parameter, World as _, gherkin::Step, given, then, when};
use futures::FutureExt as _;
use serde_json::{Value, json};

#[derive(Debug, Default, cucumber::World)]
pub struct ZWorld {
    pub calls: Vec<String>,
}

#[derive(Debug, Parameter)]
#[param(regex = "cat|dog", name = "animal")]
pub enum Animal {
    Cat,
    Dog,
}

impl std::str::FromStr for Animal {
    type Err = String;

    fn from_str(s: &str) -> Result<Self, String> {
        match s {
            "cat" => Ok(Self::Cat),
            "dog" => Ok(Self::Dog),
            other => Err(format!("no animal {other}")),
        }
    }
}

#[given("a literal step")]
fn lit(w: &mut ZWorld) {
    w.calls.push("lit()".into());
}

#[when("a literal step")]
fn lit_when(w: &mut ZWorld) {
    w.calls.push("lit_when()".into());
}

#[when(regex = r"^eat (\d+) (\w+)$")]
fn eat(w: &mut ZWorld, n: u32, what: String) {
    w.calls.push(format!("eat({n},{what})"));
}

#[then(expr = "I have {int} cucumber(s)")]
async fn have(w: &mut ZWorld, n: i64) {
    futures::future::ready(()).await;
    w.calls.push(format!("have({n})"));
}

#[given(regex = r"^slice (\w+) (\w+)$")]
fn slice(w: &mut ZWorld, args: &[String]) {
    w.calls.push(format!("slice({})", args.join(",")));
}

#[when(regex = "^with step$")]
fn with_step(w: &mut ZWorld, #[step] s: &Step) {
    w.calls.push(format!("with_step({})", s.value));
}

#[then(regex = "^fails$")]
fn fails(w: &mut ZWorld) -> Result<(), String> {
    w.calls.push("fails()".into());
    Err("boom".into())
}

#[given(regex = r"^multi (\d+)$")]
#[when(regex = r"^multi (\d+)$")]
fn multi(w: &mut ZWorld, n: u8) {
    w.calls.push(format!("multi({n})"));
}

#[given(expr = "a {animal} says {string}")]
fn animal(w: &mut ZWorld, a: Animal, s: String) {
    let a = match a {
        Animal::Cat => "cat",
        Animal::Dog => "dog",
    };
    w.calls.push(format!("animal({a},{s})"));
}

#[then(regex = r"^opt(?: (\d+))?$")]
fn opt(w: &mut ZWorld, s: String) {
    w.calls.push(format!("opt({s})"));
}

#[when(expr = "user {string} has {int} apple(s)")]
fn user(w: &mut ZWorld, name: String, n: u32) {
    w.calls.push(format!("user({name},{n})"));
}

#[then(expr = "{string} tells {string} the word {word}")]
fn say3(w: &mut ZWorld, a: String, b: String, c: String) {
    w.calls.push(format!("say3({a},{b},{c})"));
}

#[given(expr = "price is {float}")]
fn price(w: &mut ZWorld, p: f64) {
    w.calls.push(format!("price({p})"));
}

#[when(regex = r"^move (left|right) by (-?\d+)$")]
fn mv(w: &mut ZWorld, dir: String, n: i32) {
    w.calls.push(format!("mv({dir},{n})"));
}

#[then(regex = "^async fails$")]
async fn afail(w: &mut ZWorld) -> Result<(), String> {
    futures::future::ready(()).await;
    w.calls.push("afail()".into());
    Err("async boom".into())
}

#[given(regex = r"^both (\w+) (\w+)$")]
fn both(w: &mut ZWorld, #[step] s: &Step, args: &[String]) {
    w.calls.push(format!("both({};{})", s.value, args.join(",")));
}

#[given("a.b (c)?")]
fn meta(w: &mut ZWorld) {
    w.calls.push("meta()".into());
}

#[when(expr = "a {animal} meets {int} {animal}(s)")]
fn meets(w: &mut ZWorld, a: Animal, n: u8, b: Animal) {
    let s = |x: &Animal| match x {
        Animal::Cat => "cat",
        Animal::Dog => "dog",
    };
    w.calls.push(format!("meets({},{n},{})", s(&a), s(&b)));
}

#[then(expr = "anything {} goes")]
fn anon(w: &mut ZWorld, s: String) {
    w.calls.push(format!("anon({s})"));
}

#[given(expr = "I eat/drink {int} thing(s)")]
fn eatdrink(w: &mut ZWorld, n: u8) {
    w.calls.push(format!("eatdrink({n})"));
}

#[when(regex = r"^astep (\d+)$")]
async fn astep(
    w: &mut ZWorld,
    n: u16,
    #[step] s: &Step,
) -> Result<(), String> {
    futures::future::ready(()).await;
    w.calls.push(format!("astep({n};{})", s.value));
    Ok(())
}

#[then("1+1 = 2 | [x] ^$ {int}")]
fn metas(w: &mut ZWorld) {
    w.calls.push("metas()".into());
}

#[given(regex = "^twice$")]
#[then(regex = r"^twice (\d+)$")]
fn twice(w: &mut ZWorld, args: &[String]) {
    w.calls.push(format!("twice({})", args.join(",")));
}

#[when(regex = r"^opts (\w*) (\w*)(?: (\w+))?$")]
fn opts(w: &mut ZWorld, args: &[String]) {
    w.calls.push(format!("opts({})", args.join(",")));
}

/// A `Result` behind a differently named alias.
type Outcome = Result<(), String>;

#[then(regex = "^alias fails$")]
fn alias_fails(w: &mut ZWorld) -> Outcome {
    w.calls.push("alias_fails()".into());
    Err("aliased boom".into())
}

#[given(regex = "^okres$")]
fn okres(w: &mut ZWorld) -> Result<(), String> {
    w.calls.push("okres()".into());
    Ok(())
}

#[when(expr = "calc \\(x\\) {word}")]
async fn calc(w: &mut ZWorld, v: String) {
    w.calls.push(format!("calc({v})"));
}

/// Looks up and executes one (keyword, text) on a fresh world.
pub fn dispatch(l: &Value) -> Value {
    let coll = ZWorld::collection();
    let mut results = Vec::new();
    for q in l["queries"].as_array().unwrap() {
        let kw = q["kw"].as_str().unwrap();
        let text = q["text"].as_str().unwrap();
        let step = Step {
            keyword: kw.to_owned(),
            ty: match kw {
                "Given" => cucumber::gherkin::StepType::Given,
                "When" => cucumber::gherkin::StepType::When,
                _ => cucumber::gherkin::StepType::Then,
            },
            value: text.to_owned(),
            docstring: None,
            table: None,
            span: cucumber::gherkin::Span { start: 0, end: 0 },
            position: cucumber::gherkin::LineCol { line: 1, col: 1 },
        };
        let r = match coll.find(&step) {
            Ok(None) => json!({"res": "notfound", "call": ""}),
            Err(_) => json!({"res": "ambiguous", "call": ""}),
            Ok(Some((f, _, _, ctx))) => {
                let mut w = ZWorld::default();
                let prev = std::panic::take_hook();
                std::panic::set_hook(Box::new(|_| {}));
                let out = futures::executor::block_on(
                    std::panic::AssertUnwindSafe(f(&mut w, ctx)).catch_unwind(),
                );
                std::panic::set_hook(prev);
                let call = w.calls.join(";");
                match out {
                    Ok(()) => json!({"res": "invoked", "call": call}),
                    Err(_) => json!({"res": "failed", "call": call}),
                }
            }
        };
        let mut r = r;
        r["id"] = q["id"].clone();
        results.push(r);
    }
    json!({"results": results})
}
