"""Model checking of Runner.tla against the monitor RunnerObs.tla."""
import os

from common import WORK, ToolError, cache_get, cache_put, log, require_ok, tlc

# (name, Cfg operator, MaxFail, liveness?)
CONFIGS = {
    "quick": [("core1", "Core1", 1, True), ("core2", "Core2", 1, True),
              ("retry2", "Retry2", 2, False), ("ff2", "FF2", 1, True),
              ("mix2", "Mix2", 2, False), ("wide3ff", "Wide3FF", 2, False)],
    "thorough": [("core1", "Core1", 2, True), ("core2", "Core2", 2, True),
                 ("retry2", "Retry2", 2, True), ("retry1", "Retry1", 2, True),
                 ("ff2", "FF2", 2, True), ("noff2", "NoFF2", 2, True),
                 ("mix2", "Mix2", 3, False), ("mix2ff", "Mix2FF", 3, True), ("mixu", "MixU", 3, True),
                 ("wide2", "Wide2", 3, True), ("wide3ff", "Wide3FF", 3, True)],
}


def _cfg(path, spec, case, maxfail, idle_yields=True, serial_excl=True, invs=(), prop=None, view=True,
         log_points="{}", max_logs=0):
    with open(path, "w") as f:
        f.write(f"SPECIFICATION {spec}\nCONSTANTS\n  Cfg <- {case}\n  MaxFail = {maxfail}\n"
                f"  IdleYields = {'TRUE' if idle_yields else 'FALSE'}\n"
                f"  SerialExclusive = {'TRUE' if serial_excl else 'FALSE'}\n"
                f"  LogPoints = {log_points}\n  MaxLogs = {max_logs}\n")
        if invs:
            f.write("INVARIANTS " + " ".join(invs) + "\n")
        if prop:
            f.write(f"PROPERTY {prop}\n")
        if view:
            f.write("VIEW VIEW_NoStats\n")
        f.write("CHECK_DEADLOCK FALSE\n")


def model_check(tier):
    cached = cache_get("runner_mc", tier)
    if cached:
        return cached
    configs = []
    for name, case, maxfail, live in CONFIGS[tier]:
        cfg = os.path.join(WORK, f"MC_Runner_{name}.cfg")
        _cfg(cfg, "Spec", case, maxfail, invs=("NoViolation", "SlotsInv"))
        r = tlc("MC_Runner.tla", cfg, workers=8, timeout=1800, tag="mcr" + name)
        require_ok(r, f"MC_Runner {name}")
        if r["violated"]:
            raise ToolError(f"MC_Runner {name}: the reference design violates {r['violated']} "
                            "(specification defect, not a verdict about the code):\n"
                            + "\n".join(r["out"].splitlines()[-80:]))
        entry = {"cfg": f"MC_Runner[{case},MaxFail={maxfail}]", "states": r.get("states", 0),
                 "distinct": r.get("distinct", 0), "depth": r.get("depth", 0), "wall_s": r["wall_s"],
                 "invariants": ["NoViolation (monitor RunnerObs: C01..C10 rules)", "SlotsInv"]}
        log(f"[runner-mc] {name}: {r.get('distinct')} distinct, {r['wall_s']}s")
        if live:
            cfg = os.path.join(WORK, f"MC_Runner_{name}_live.cfg")
            _cfg(cfg, "LiveSpec", case, maxfail, prop="Terminates", view=False)
            r = tlc("MC_Runner.tla", cfg, workers=8, timeout=1800, tag="mcrl" + name)
            require_ok(r, f"MC_Runner {name} liveness")
            if r["violated"]:
                raise ToolError(f"MC_Runner {name}: <>Done violated under fairness (specification defect)")
            entry["liveness"] = {"property": "<>(epc = done) under WF executor/attempt/clock, SF parser",
                                 "distinct": r.get("distinct", 0), "wall_s": r["wall_s"]}
        configs.append(entry)
    # non-vacuity: the as-is switches must produce counterexamples
    asis = []
    cfg = os.path.join(WORK, "MC_Runner_asis_serial.cfg")
    _cfg(cfg, "Spec", "Retry2", 2, serial_excl=False, invs=("NoViolation",))
    r = tlc("MC_Runner.tla", cfg, workers=4, timeout=900, tag="mcras")
    if not r["violated"]:
        raise ToolError("vacuity guard: SerialExclusive=FALSE no longer violates the monitor")
    asis.append({"switch": "SerialExclusive=FALSE", "violated": r["violated"],
                 "meaning": "the monitor rejects the pre-fix design (F3, C07)"})
    cfg = os.path.join(WORK, "MC_Runner_asis_idle.cfg")
    _cfg(cfg, "LiveSpec", "Core2", 1, idle_yields=False, prop="Terminates", view=False)
    r = tlc("MC_Runner.tla", cfg, workers=4, timeout=900, tag="mcrai")
    if not r["violated"]:
        raise ToolError("vacuity guard: IdleYields=FALSE no longer violates <>Done")
    asis.append({"switch": "IdleYields=FALSE", "violated": r["violated"],
                 "meaning": "TLC finds the idle-spin lasso of the pre-fix design (F2, C04)"})
    res = {"configs": configs, "asis": asis}
    cache_put("runner_mc", tier, res)
    return res


def model_check_tracing(tier):
    """Runner.tla with the tracing forwarder: logs of before hooks and steps of two
    concurrently running scenarios (C20)."""
    cached = cache_get("runner_mc_tracing", tier)
    if cached:
        return cached
    configs = []
    maxlogs = 3 if tier == "quick" else 4
    cfg = os.path.join(WORK, "MC_Runner_log2.cfg")
    _cfg(cfg, "Spec", "Log2", 1, invs=("NoViolation",), log_points='{"before", "step"}', max_logs=maxlogs)
    r = tlc("MC_Runner.tla", cfg, workers=8, timeout=3000, tag="mcrlog")
    require_ok(r, "MC_Runner Log2")
    if r["violated"]:
        raise ToolError("MC_Runner Log2: the design violates the C20 rules of the monitor (specification defect):\n"
                        + "\n".join(r["out"].splitlines()[-60:]))
    configs.append({"cfg": f"MC_Runner[Log2,MaxFail=1,LogPoints={{before,step}},MaxLogs={maxlogs}]",
                    "states": r.get("states", 0), "distinct": r.get("distinct", 0),
                    "depth": r.get("depth", 0), "wall_s": r["wall_s"],
                    "invariants": ["NoViolation (incl. the C20 rules of RunnerObs)"]})
    log(f"[runner-mc] log2: {r.get('distinct')} distinct, {r['wall_s']}s")
    cfg = os.path.join(WORK, "MC_Runner_log2_after.cfg")
    _cfg(cfg, "Spec", "Log2", 0, invs=("NoViolation",), log_points='{"after"}', max_logs=1)
    r = tlc("MC_Runner.tla", cfg, workers=4, timeout=900, tag="mcrloga")
    if not r["violated"]:
        raise ToolError("vacuity guard: after-hook logs no longer violate the C20 rule (F7) in the model")
    asis = [{"switch": 'LogPoints={"after"}', "violated": r["violated"],
             "meaning": "the design delivers after-hook logs before Hook(After)::Started (known finding F7)"}]
    res = {"configs": configs, "asis": asis}
    cache_put("runner_mc_tracing", tier, res)
    return res
