---------------------------- MODULE Trace_Runner ----------------------------
(***************************************************************************)
(* impl -> spec direction for C01..C10 (and the runner half of C18): the   *)
(* records of driven runs of the REAL runner::Basic (harness `drive`), one *)
(* case after another separated by `reset` records, are consumed one per   *)
(* step by the monitor RunnerObs!Obs.  One CASE line per case.             *)
(***************************************************************************)
EXTENDS RunnerObs, Json, IOUtils

Rec == ndJsonDeserialize(IOEnv.TRACE)

VARIABLES l, o, cid, prevOut

Outcomes(ob) == [s \in DOMAIN ob.at |-> ob.at[s].out]

\* C08, last sentence: same per-scenario outcomes as the twin run without fail-fast
TwinViol(ob, prev) ==
  IF ob.cfg.twin /\ DOMAIN prev = DOMAIN ob.at /\ ~(\A s \in DOMAIN ob.at : ob.at[s].out = prev[s])
  THEN {<<"C08", "fail-fast-run-without-failure-differs-from-normal-run", 0>>} ELSE {}

Summary(ob, id, prev) ==
  PrintT(<<"CASE", ToJson([case |-> id, viol |-> ob.viol \cup TwinViol(ob, prev), stats |-> ob.stats,
                           outcomes |-> Outcomes(ob), ended |-> ob.ph = "ended"])>>)

Init == l = 1 /\ o = <<>> /\ cid = "" /\ prevOut = <<>>

Next ==
  /\ l <= Len(Rec) + 1
  /\ IF l = Len(Rec) + 1
     THEN /\ (IF cid = "" THEN TRUE ELSE Summary(o, cid, prevOut))
          /\ UNCHANGED <<o, cid, prevOut>>
     ELSE LET r == Rec[l] IN
          IF r.kind = "reset"
          THEN /\ (IF cid = "" THEN TRUE ELSE Summary(o, cid, prevOut))
               /\ o' = ObsInit(r.expect)
               /\ cid' = r.case
               /\ prevOut' = IF cid = "" THEN <<>> ELSE Outcomes(o)
          ELSE /\ o' = Obs(o, r)
               /\ UNCHANGED <<cid, prevOut>>
  /\ l' = l + 1

Spec == Init /\ [][Next]_<<l, o, cid, prevOut>>

AllChecked ==
  IF TLCGet("stats").diameter = Len(Rec) + 2 THEN TRUE
  ELSE PrintT(<<"INCOMPLETE", TLCGet("stats").diameter, Len(Rec)>>) /\ FALSE
=============================================================================
