---------------------------- MODULE Gen_RetryOpts ----------------------------
(* C18, spec -> impl: every vector of the chosen group as one JSON line. *)
EXTENDS RetryOpts, Json
CONSTANT Group
VARIABLE v
Vectors == CASE Group = "A" -> VecA [] Group = "B" -> VecB [] Group = "C" -> VecC
Init == v \in Vectors
Next == UNCHANGED v
Spec == Init /\ [][Next]_v
Dump == PrintT(<<"REPLAY", ToJson([vec |-> v])>>)
=============================================================================
