------------------------------- MODULE Outline -------------------------------
(***************************************************************************)
(* C16: expansion of scenario outlines (feature::Ext::expand_examples,     *)
(* src/feature.rs, as applied by parser::Basic).                           *)
(*                                                                         *)
(* Texts are token sequences: Lit(v) a literal piece, Ph(n) the            *)
(* placeholder <n>.  A table has tags, a header (column names) and data    *)
(* rows of values (strings, possibly empty, possibly looking like          *)
(* placeholders or regex replacement syntax).  The harness renders every   *)
(* literal / value between two U+241F separators, so the expanded text can *)
(* be split back into pieces; empty pieces vanish on both sides.           *)
(***************************************************************************)
EXTENDS Integers, Sequences, FiniteSets, TLC

Range(seq) == {seq[i] : i \in DOMAIN seq}
Lit(v) == [k |-> "lit", v |-> v]
Ph(n) == [k |-> "ph", v |-> n]

RECURSIVE FlatSeq(_)
FlatSeq(ss) == IF ss = <<>> THEN <<>> ELSE Head(ss) \o FlatSeq(Tail(ss))

ColIdx(header, n) == IF \E i \in DOMAIN header : header[i] = n
                     THEN CHOOSE i \in DOMAIN header : header[i] = n /\ \A j \in DOMAIN header : header[j] = n => i <= j
                     ELSE 0
\* substituted pieces of a token sequence (empty pieces dropped)
Subst(toks, header, row) ==
  SelectSeq([i \in DOMAIN toks |->
               IF toks[i].k = "lit" THEN toks[i].v
               ELSE IF ColIdx(header, toks[i].v) = 0 THEN "?" ELSE row[ColIdx(header, toks[i].v)]],
            LAMBDA p : p # "")
Unknown(toks, header) == {toks[i].v : i \in {j \in DOMAIN toks : toks[j].k = "ph" /\ ColIdx(header, toks[j].v) = 0}}

\* all token sequences of a scenario: name, step texts, doc strings, cells
AllToks(sc) ==
  sc.name \o FlatSeq([i \in DOMAIN sc.steps |->
      sc.steps[i].text \o sc.steps[i].doc \o FlatSeq(sc.steps[i].cells)])

\* (scenarios without Examples in the vectors contain literals only)
Pieces(toks) == SelectSeq([i \in DOMAIN toks |-> toks[i].v], LAMBDA p : p # "")

\* one expanded scenario
ExpandRow(sc, tb, row) ==
  [name |-> Subst(sc.name, tb.header, row),
   tags |-> sc.tags \o tb.tags,
   steps |-> [i \in DOMAIN sc.steps |->
                [text |-> Subst(sc.steps[i].text, tb.header, row),
                 doc |-> Subst(sc.steps[i].doc, tb.header, row),
                 cells |-> [c \in DOMAIN sc.steps[i].cells |-> Subst(sc.steps[i].cells[c], tb.header, row)]]]]

\* a scenario without Examples is left as it is
Plain(sc) ==
  [name |-> Pieces(sc.name), tags |-> sc.tags,
   steps |-> [i \in DOMAIN sc.steps |->
                [text |-> Pieces(sc.steps[i].text), doc |-> Pieces(sc.steps[i].doc),
                 cells |-> [c \in DOMAIN sc.steps[i].cells |-> Pieces(sc.steps[i].cells[c])]]]]

ExpandScenario(sc) ==
  IF sc.tables = <<>> THEN <<Plain(sc)>>
  ELSE FlatSeq([t \in DOMAIN sc.tables |->
                  [r \in DOMAIN sc.tables[t].rows |-> ExpandRow(sc, sc.tables[t], sc.tables[t].rows[r])]])

\* placeholders that name no column of some table with at least one data row
UnknownOf(sc) ==
  UNION {Unknown(AllToks(sc), sc.tables[t].header) : t \in {x \in DOMAIN sc.tables : sc.tables[x].rows # <<>>}}

\* a feature: top-level scenarios then one rule with scenarios
ExpandFeature(f) ==
  LET all == f.scenarios \o f.ruleScenarios
      unk == UNION {UnknownOf(all[i]) : i \in DOMAIN all}
  IN IF unk # {} THEN [error |-> TRUE, names |-> unk, scenarios |-> <<>>, ruleScenarios |-> <<>>]
     ELSE [error |-> FALSE, names |-> {},
           scenarios |-> FlatSeq([i \in DOMAIN f.scenarios |-> ExpandScenario(f.scenarios[i])]),
           ruleScenarios |-> FlatSeq([i \in DOMAIN f.ruleScenarios |-> ExpandScenario(f.ruleScenarios[i])])]
=============================================================================
