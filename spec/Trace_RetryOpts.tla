--------------------------- MODULE Trace_RetryOpts ---------------------------
(***************************************************************************)
(* C18, impl -> spec: what the real code resolved for each vector --       *)
(* through Runner::run with builder setters and CLI struct, the merged CLI *)
(* seen by the `retry_options` function, the result of                     *)
(* RetryOptions::parse_from_tags, the Retries on the first Started event,  *)
(* the hooked concurrency limit and fail-fast flag -- against Resolve.     *)
(***************************************************************************)
EXTENDS RetryOpts, Json, IOUtils

Rec == ndJsonDeserialize(IOEnv.TRACE)
VARIABLE l
Init == l = 1

Bad(r) ==
  LET e == Resolve(r.vec)   a == r.actual IN
  (IF a.some = e.some THEN {} ELSE {"presence"})
  \cup (IF ~e.some \/ ~a.some \/ a.retries = e.retries THEN {} ELSE {"retry-count"})
  \cup (IF ~e.some \/ ~a.some \/ a.after = e.after THEN {} ELSE {"retry-delay"})
  \cup (IF a.ev_retr = e.some /\ (~e.some \/ (a.ev_left = e.retries /\ a.ev_cur = 0)) THEN {}
        ELSE {"retries-on-Started-event"})
  \cup (IF a.limit = Limit(r.vec) THEN {} ELSE {"concurrency-merge"})
  \cup (IF a.fail_fast = FailFast(r.vec) THEN {} ELSE {"fail-fast-merge"})

Next ==
  /\ l <= Len(Rec)
  /\ PrintT(<<"VERDICT", ToJson([id |-> Rec[l].id, bad |-> Bad(Rec[l])])>>)
  /\ l' = l + 1
Spec == Init /\ [][Next]_l
AllChecked ==
  IF TLCGet("stats").diameter = Len(Rec) + 1 THEN TRUE
  ELSE PrintT(<<"INCOMPLETE", TLCGet("stats").diameter, Len(Rec)>>) /\ FALSE
=============================================================================
