#!/usr/bin/env python3
"""Confirms a seeded change produced by a sub-agent and runs the owning check
against it.  usage: seeded.py <worktree> <seeded-id> <prop> [--skip-suite]
Stores /verif/seeded/<seeded-id>/{patch.diff, demo, meta.json}."""
import json
import os
import shutil
import subprocess
import sys
import time

ENV = dict(os.environ, CARGO_BUILD_JOBS="6", CARGO_NET_OFFLINE="true")


def sh(cmd, cwd, timeout=3600):
    r = subprocess.run(cmd, cwd=cwd, shell=True, stdout=subprocess.PIPE, stderr=subprocess.STDOUT,
                       text=True, env=ENV, timeout=timeout)
    return r.returncode, r.stdout


def main():
    wt, sid, prop = sys.argv[1:4]
    skip_suite = "--skip-suite" in sys.argv
    dst = f"/verif/seeded/{sid}"
    os.makedirs(dst, exist_ok=True)
    src = os.path.join(wt, "SEEDED")
    for f in os.listdir(src):
        shutil.copy(os.path.join(src, f), os.path.join(dst, f))
    meta = json.load(open(os.path.join(dst, "meta.json")))
    demo = "seeded_demo"
    report = {}
    # 1. demo fails with the change
    rc, out = sh(f"cargo test --offline --all-features --test {demo} 2>&1 | tail -30", wt)
    report["demo_with_change"] = "FAILS" if ("FAILED" in out or "failed" in out and "test result: ok" not in out) else "passes"
    # 2. demo passes without
    # (git stash is shared between linked worktrees: reverse-apply the patch instead)
    sh(f"git apply -R {os.path.join(dst, 'patch.diff')}", wt)
    try:
        rc, out2 = sh(f"cargo test --offline --all-features --test {demo} 2>&1 | tail -30", wt)
        report["demo_without_change"] = "passes" if "test result: ok" in out2 and "FAILED" not in out2 else "FAILS"
    finally:
        sh(f"git apply {os.path.join(dst, 'patch.diff')}", wt)
    # 3. existing suite passes with the change
    if not skip_suite:
        os.rename(os.path.join(wt, "tests", demo + ".rs"), os.path.join(wt, demo + ".rs.off"))
        try:
            rc, out3 = sh("cargo test --workspace --no-fail-fast --offline 2>&1 | grep -E '^test result|FAILED|panicked at .*tests/' | sort | uniq -c", wt)
            ok = "FAILED" not in out3 and "test result: ok" in out3
            report["existing_suite_with_change"] = "passes" if ok else "FAILS: " + out3[-600:]
        finally:
            os.rename(os.path.join(wt, demo + ".rs.off"), os.path.join(wt, "tests", demo + ".rs"))
    # 4. the owning check against the change
    patch = os.path.join(dst, "patch.diff")
    rc, out = sh(f"git -C /repo apply {patch}", "/verif")
    if rc != 0:
        report["check"] = "patch does not apply: " + out[-300:]
    else:
        try:
            t0 = time.time()
            r = subprocess.run(["/verif/check", prop], cwd="/verif", stdout=subprocess.PIPE,
                               stderr=subprocess.PIPE, text=True)
            lines = [l for l in r.stdout.splitlines() if l.startswith(("VIOLATION", "OK"))]
            report["check"] = {"cmd": f"./check {prop}", "rc": r.returncode, "lines": lines[:3],
                               "wall_s": round(time.time() - t0),
                               "detected": r.returncode == 1,
                               "stderr_tail": r.stderr[-400:] if r.returncode != 1 else ""}
        finally:
            sh("git -C /repo checkout -- .", "/verif")
    meta["confirmed"] = report
    json.dump(meta, open(os.path.join(dst, "meta.json"), "w"), indent=1)
    print(json.dumps(report, indent=1))


if __name__ == "__main__":
    main()
