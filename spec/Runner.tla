------------------------------- MODULE Runner -------------------------------
(***************************************************************************)
(* Reference design of runner::Basic (src/runner/basic.rs) at the grain of *)
(* its suspension points: a parser process (insert_features), the executor *)
(* loop (execute: get -> dispatch -> await one completion -> drain), and   *)
(* one process per in-flight attempt (run_scenario) whose steps are the    *)
(* code stretches between two yields / user-code suspensions.  Every       *)
(* action emits the SAME records the hooked code and the harness' test     *)
(* double emit, and feeds them to the property monitor RunnerObs!Obs, so   *)
(* "the design satisfies C01..C10" is the single invariant  o.viol = {}.   *)
(*                                                                         *)
(* Cooperative scheduling as in the code: attempts make progress only      *)
(* while the executor is parked (epc = "await"); the parser only when the  *)
(* executor yields (epc \in {"init","await","sleep","yield"}).             *)
(* Outcomes of user callbacks are chosen nondeterministically (at most     *)
(* MaxFail failures per behaviour).  Time is a logical clock.              *)
(***************************************************************************)
EXTENDS RunnerObs

CONSTANTS Cfg,      \* the case: same shape as the harness' `expect` record
          MaxFail,  \* max number of failing callbacks per behaviour
          IdleYields, SerialExclusive,  \* "as-is" switches (TRUE = fixed design)
          LogPoints, MaxLogs  \* tracing (C20): callback kinds that emit logs; max logs per behaviour

VARIABLES pPos, pDone,            \* parser cursor / Features.finished
          qS, qC,                 \* Serial / Concurrent queues: Seq of entries
          epc, slots, batch,      \* executor pc, started_scenarios, last batch
          run,                    \* in-flight attempts: [scenario -> attempt state]
          serialStarted,          \* is_serial_started
          finQ,                   \* finished-channel
          cntF, cntR,             \* FinishedRulesAndFeatures counters (-1 = absent)
          now, nid, nfail,        \* logical clock, next ScenarioId, failures so far
          logChan, nlogs,         \* tracing: formatted events not yet forwarded; logs emitted so far
          o                       \* monitor state (RunnerObs)

vars == <<pPos, pDone, qS, qC, epc, slots, batch, run, serialStarted, finQ, cntF, cntR,
          now, nid, nfail, logChan, nlogs, o>>

Scen == DOMAIN Cfg.scen
Feats == DOMAIN Cfg.feats
Rules == DOMAIN Cfg.rules

Rec(kind, fields) == [seq |-> 0, t_us |-> now, kind |-> kind] @@ fields

RECURSIVE Feed(_, _)
Feed(ob, recs) == IF recs = <<>> THEN ob ELSE Feed(Obs(ob, Head(recs)), Tail(recs))

Entry(s, cur, readyAt, id) == [s |-> s, cur |-> cur, readyAt |-> readyAt, id |-> id]
IsReady(e) == e.readyAt <= now
QRec(q) == [i \in DOMAIN q |-> [id |-> q[i].id, s |-> q[i].s, cur |-> q[i].cur, r0 |-> IsReady(q[i]),
                                left_us |-> IF IsReady(q[i]) THEN -1 ELSE q[i].readyAt - now]]
BRec(b) == [i \in DOMAIN b |-> [id |-> b[i].id, s |-> b[i].s, cur |-> b[i].cur,
                                serial |-> Cfg.scen[b[i].s].serial]]

RetrOf(s, cur) ==
  IF Cfg.scen[s].budget < 0 THEN [retr |-> FALSE, cur |-> 0, left |-> 0]
  ELSE [retr |-> TRUE, cur |-> cur, left |-> Cfg.scen[s].budget - cur]

EvRec(fields) == Rec("ev", fields)
ScEv(s, cur, k, extra) ==
  LET rt == RetrOf(s, cur) IN
  EvRec([t |-> "Sc", f |-> Cfg.scen[s].f, r |-> Cfg.scen[s].r, s |-> s, k |-> k,
         retr |-> rt.retr, cur |-> rt.cur, left |-> rt.left] @@ extra)

---------------------------------------------------------------------------
Init ==
  /\ pPos = 1 /\ pDone = FALSE
  /\ qS = <<>> /\ qC = <<>>
  /\ epc = "init" /\ slots = Cfg.limit /\ batch = <<>>
  /\ run = [id \in {} |-> 0]
  /\ serialStarted = FALSE
  /\ finQ = <<>>
  /\ cntF = [f \in Feats |-> -1] /\ cntR = [r \in Rules |-> -1]
  /\ now = 0 /\ nid = 1 /\ nfail = 0
  /\ logChan = <<>> /\ nlogs = 0
  /\ o = ObsInit(Cfg)

ParserMayRun == epc \in {"init", "await", "sleep", "yield"}

---------------------------------------------------------------------------
(* Parser process: insert_features                                         *)

ScenSeq(f) == Cfg.feats[f].order   \* scenario names of f in insertion order

RECURSIVE MkEntries(_, _)
MkEntries(ss, id) ==
  IF ss = <<>> THEN <<>>
  ELSE <<Entry(Head(ss), 0, 0, id)>> \o MkEntries(Tail(ss), id + 1)

Insert ==
  /\ ParserMayRun /\ ~pDone /\ pPos <= Len(Cfg.parser)
  /\ Cfg.parser[pPos].item = "feat"
  /\ LET f == Cfg.parser[pPos].f
         es == MkEntries(ScenSeq(f), nid)
         ser == SelectSeq(es, LAMBDA e : Cfg.scen[e.s].serial)
         con == SelectSeq(es, LAMBDA e : ~Cfg.scen[e.s].serial)
         front == ser # <<>>        \* a batch with Serial scenarios goes in front
         qS2 == IF front THEN ser \o qS ELSE qS
         qC2 == IF front THEN con \o qC ELSE qC \o con
     IN /\ qS' = qS2 /\ qC' = qC2
        /\ nid' = nid + Len(es)
        /\ o' = Feed(o, <<Rec("enqueue", [qs |-> QRec(qS2), qc |-> QRec(qC2)]),
                          Rec("insert", [f |-> f])>>)
  /\ pPos' = pPos + 1
  /\ UNCHANGED <<pDone, epc, slots, batch, run, serialStarted, finQ, cntF, cntR, now, nfail, logChan, nlogs>>

PErr ==
  /\ ParserMayRun /\ ~pDone /\ pPos <= Len(Cfg.parser)
  /\ Cfg.parser[pPos].item = "err"
  /\ o' = Feed(o, <<Rec("perr", [item |-> pPos - 1])>>)
  /\ pPos' = IF Cfg.fail_fast THEN Len(Cfg.parser) + 1 ELSE pPos + 1
  /\ UNCHANGED <<pDone, qS, qC, epc, slots, batch, run, serialStarted, finQ, cntF, cntR, now, nid, nfail, logChan, nlogs>>

PFin ==
  /\ ParserMayRun /\ ~pDone /\ pPos > Len(Cfg.parser)
  /\ pDone' = TRUE
  /\ LET fsI == Range(o.ins) IN
     o' = Feed(o, <<Rec("pfin", [features |-> Len(o.ins),
                                 rules |-> SumOver(Cfg.feats, fsI, "nrules"),
                                 scenarios |-> SumOver(Cfg.feats, fsI, "nscen"),
                                 steps |-> SumOver(Cfg.feats, fsI, "nsteps"),
                                 parser_errors |-> o.nperr])>>)
  /\ UNCHANGED <<pPos, qS, qC, epc, slots, batch, run, serialStarted, finQ, cntF, cntR, now, nid, nfail, logChan, nlogs>>

---------------------------------------------------------------------------
(* Executor process: execute                                               *)

ExecStart ==
  /\ epc = "init"
  /\ epc' = "get"
  /\ o' = Feed(o, <<Rec("hook_silenced", [limit |-> Cfg.limit, fail_fast |-> Cfg.fail_fast]),
                    EvRec([t |-> "Started"])>>)
  /\ UNCHANGED <<pPos, pDone, qS, qC, slots, batch, run, serialStarted, finQ, cntF, cntR, now, nid, nfail, logChan, nlogs>>

ReadyIdx(q) == {i \in DOMAIN q : IsReady(q[i])}
RECURSIVE FirstN(_, _, _)
\* indices of the first n ready entries (n < 0: all)
FirstN(q, i, n) ==
  IF i > Len(q) \/ n = 0 THEN {}
  ELSE IF IsReady(q[i]) THEN {i} \cup FirstN(q, i + 1, n - 1)
       ELSE FirstN(q, i + 1, n)
Pick(q, idx) == SelectSeq([i \in DOMAIN q |-> IF i \in idx THEN q[i] ELSE Entry("", -1, 0, 0)],
                          LAMBDA e : e.s # "")
Drop(q, idx) == SelectSeq([i \in DOMAIN q |-> IF i \in idx THEN Entry("", -1, 0, 0) ELSE q[i]],
                          LAMBDA e : e.s # "")
MinWait(q) == {q[i].readyAt - now : i \in DOMAIN q \ ReadyIdx(q)}

InRun == DOMAIN run
SerialRunning == serialStarted /\ InRun # {}

\* Features::get + the idle test of execute; one atomic stretch (no await)
Get ==
  /\ epc = "get"
  /\ LET want == IF slots = -2 THEN 0 ELSE slots
         serialReady == ReadyIdx(qS) # {}
         held == SerialExclusive /\ (SerialRunning \/ (serialReady /\ InRun # {}))
         takeS == IF want = 0 \/ held \/ ~serialReady THEN {} ELSE FirstN(qS, 1, 1)
         takeC == IF want = 0 \/ held \/ takeS # {} THEN {} ELSE FirstN(qC, 1, want)
         b == Pick(qS, takeS) \o Pick(qC, takeC)
         qS2 == Drop(qS, takeS)
         qC2 == Drop(qC, takeC)
         getRec == IF want = 0 THEN <<>>       \* early return before the hook
                   ELSE <<Rec("get", [want |-> want, batch |-> BRec(b), min_us |-> -1,
                                      qs |-> QRec(qS2), qc |-> QRec(qC2)])>>
         idle == InRun = {} /\ b = <<>>
         finished == pDone /\ (slots = -2 \/ (qS = <<>> /\ qC = <<>>))
         waits == MinWait(qS) \cup MinWait(qC)
     IN /\ qS' = qS2 /\ qC' = qC2 /\ batch' = b
        /\ IF idle
           THEN IF finished
                THEN /\ epc' = "close"
                     /\ o' = Feed(o, getRec \o <<Rec("idle", [d |-> "done"])>>)
                ELSE IF waits # {} /\ want # 0
                THEN /\ epc' = "sleep"
                     /\ o' = Feed(o, getRec \o <<Rec("idle", [d |-> "sleep"])>>)
                ELSE /\ epc' = IF IdleYields THEN "yield" ELSE "get"
                     /\ o' = Feed(o, getRec \o <<Rec("idle", [d |-> "spin"])>>)
           ELSE /\ epc' = "dispatch"
                /\ o' = Feed(o, getRec)
  /\ UNCHANGED <<pPos, pDone, slots, run, serialStarted, finQ, cntF, cntR, now, nid, nfail, logChan, nlogs>>

\* the yield added to the idle branch / the sleeper thread waking the task
Resume ==
  /\ \/ epc = "yield"
     \/ epc = "sleep" /\ (ReadyIdx(qS) # {} \/ ReadyIdx(qC) # {} \/ TRUE)
  /\ epc' = "get"
  /\ UNCHANGED <<pPos, pDone, qS, qC, slots, batch, run, serialStarted, finQ, cntF, cntR, now, nid, nfail, logChan, nlogs, o>>

NewAttempt(e) == [s |-> e.s, cur |-> e.cur, id |-> e.id, pc |-> "new", i |-> 1, world |-> 0, wctr |-> 0,
                  res |-> "", fail |-> "", ares |-> "", pf |-> <<>>]

\* start_scenarios + slots -= + push futures
Dispatch ==
  /\ epc = "dispatch"
  /\ LET bs == Range(batch)
         newF == {f \in Feats : cntF[f] = -1 /\ \E e \in bs : Cfg.scen[e.s].f = f}
         newR == {r \in Rules : cntR[r] = -1 /\ \E e \in bs : Cfg.scen[e.s].r = r}
         RECURSIVE SetToSeq(_)
         SetToSeq(S) == IF S = {} THEN <<>> ELSE LET x == CHOOSE y \in S : TRUE IN <<x>> \o SetToSeq(S \ {x})
         fev == [i \in DOMAIN SetToSeq(newF) |-> EvRec([t |-> "FeatS", f |-> SetToSeq(newF)[i]])]
         rev == [i \in DOMAIN SetToSeq(newR) |->
                   EvRec([t |-> "RuleS", f |-> Cfg.rules[SetToSeq(newR)[i]].f, r |-> SetToSeq(newR)[i]])]
         slots2 == IF slots >= 0 THEN slots - Len(batch) ELSE slots
     IN /\ cntF' = [f \in Feats |-> IF f \in newF THEN 0 ELSE cntF[f]]
        /\ cntR' = [r \in Rules |-> IF r \in newR THEN 0 ELSE cntR[r]]
        /\ slots' = slots2
        /\ run' = [id \in InRun \cup {e.id : e \in bs} |->
                     IF id \in InRun THEN run[id]
                     ELSE NewAttempt(CHOOSE e \in bs : e.id = id)]
        /\ serialStarted' = IF batch = <<>> THEN serialStarted ELSE Cfg.scen[batch[1].s].serial
        /\ o' = Feed(o, fev \o rev \o <<Rec("dispatch", [n |-> Len(batch), slots |-> slots2])>>)
  /\ epc' = "await" /\ batch' = <<>>
  /\ UNCHANGED <<pPos, pDone, qS, qC, finQ, now, nid, nfail, logChan, nlogs>>

---------------------------------------------------------------------------
(* Attempt processes: run_scenario, one action per stretch between two     *)
(* suspension points                                                       *)

WorldId(s, cur) == 100 * Cfg.scen[s].idx + cur + 1
Msg(s, cur, label) == <<"P", s, cur, label>>

Steps(s) == Cfg.scen[s].steps
N(s) == Len(Steps(s))

CbRec(s, a, cb, point, label, extra) ==
  Rec("cb", [cb |-> cb, point |-> point, s |-> s, att |-> a.cur, label |-> label,
             world |-> a.world, ctr |-> a.wctr] @@ extra)

PanicFields(s, a, label) == [pty |-> "String", pmsg |-> Msg(s, a.cur, label)]

\* records + next state of the after-hook / failure / Finished tail
\* pc values: see AttStep
AfterEnterRecs(s, a, reason) ==
  <<CbRec(s, a, "enter", "after", "after",
          [has_world |-> a.world # 0, reason |-> reason, wowner_s |-> s, wowner_att |-> a.cur])>>

FailureEvent(s, a) ==
  IF a.fail = "before"
  THEN <<ScEv(s, a.cur, "HookF", [h |-> "b", world |-> a.world # 0] @@ a.pf)>>
  ELSE IF a.fail = "step"
  THEN LET st == Steps(s)[a.i] IN
       <<ScEv(s, a.cur, "StepF",
              [step |-> st.text, bg |-> st.bg, err |-> (IF st.kind = "ambig" THEN "ambig" ELSE "panic"),
               cands |-> <<1, 2>>] @@ a.pf)>>
  ELSE <<>>

\* One step of attempt s; `fails` says whether the user callback that ends
\* in this step (if any) fails.  Returns [recs, a, done].
AttStep(s, a, fails) ==
  LET st == IF a.i <= N(s) THEN Steps(s)[a.i] ELSE [text |-> "", label |-> "", bg |-> FALSE, kind |-> ""]
      stepStart(a0, pre) ==
        \* emits StepS(i) and runs until the next suspension
        LET sev == ScEv(s, a0.cur, "StepS", [step |-> Steps(s)[a0.i].text, bg |-> Steps(s)[a0.i].bg, err |-> ""])
            k == Steps(s)[a0.i].kind
        IN IF k = "run"
           THEN IF a0.world = 0
                THEN [recs |-> pre \o <<sev, CbRec(s, [a0 EXCEPT !.world = WorldId(s, a0.cur)], "enter", "world", "world", <<>>)>>,
                      a |-> [a0 EXCEPT !.pc = "sw_gate"], done |-> FALSE]
                ELSE [recs |-> pre \o <<sev, CbRec(s, a0, "enter", "step", Steps(s)[a0.i].label, <<>>)>>,
                      a |-> [a0 EXCEPT !.pc = "s_gate"], done |-> FALSE]
           ELSE [recs |-> pre \o <<sev>>, a |-> [a0 EXCEPT !.pc = IF k = "nomatch" THEN "s_nomatch" ELSE "s_ambig"],
                 done |-> FALSE]
      toSteps(a0, pre) ==
        \* continue with step a0.i or, if none is left, with the after hook
        IF a0.i <= N(s) THEN stepStart(a0, pre)
        ELSE IF Cfg.after
             THEN [recs |-> pre \o AfterEnterRecs(s, a0, "StepPassed"), a |-> [a0 EXCEPT !.pc = "a_gate"], done |-> FALSE]
             ELSE [recs |-> pre, a |-> [a0 EXCEPT !.pc = "tail"], done |-> FALSE]
      toAfter(a0, pre, reason) ==
        IF Cfg.after
        THEN [recs |-> pre \o AfterEnterRecs(s, a0, reason), a |-> [a0 EXCEPT !.pc = "a_gate"], done |-> FALSE]
        ELSE [recs |-> pre, a |-> [a0 EXCEPT !.pc = "tail"], done |-> FALSE]
  IN
  CASE a.pc = "new" ->
         LET r0 == <<Rec("begin", [id |-> a.id, s |-> s, serial |-> Cfg.scen[s].serial]),
                     ScEv(s, a.cur, "Started", <<>>)>>
         IN IF Cfg.before
            THEN [recs |-> r0 \o <<ScEv(s, a.cur, "HookS", [h |-> "b"]),
                                   CbRec(s, [a EXCEPT !.world = WorldId(s, a.cur)], "enter", "world", "world", <<>>)>>,
                  a |-> [a EXCEPT !.pc = "bw_gate"], done |-> FALSE]
            ELSE toSteps(a, r0)
    \* World::new inside the before-hook part
    [] a.pc = "bw_gate" ->
         LET w == WorldId(s, a.cur)
             out == IF fails THEN "err" ELSE "ok"
             r == <<CbRec(s, [a EXCEPT !.world = w], "exit", "world", "world",
                          [outcome |-> out, msg |-> Msg(s, a.cur, "world")])>>
         IN IF fails
            THEN [recs |-> r, a |-> [a EXCEPT !.pc = "b_failed_y", !.fail = "before",
                                              !.pf = PanicFields(s, a, "world")], done |-> FALSE]
            ELSE [recs |-> r, a |-> [a EXCEPT !.pc = "bw_y", !.world = w], done |-> FALSE]
    [] a.pc = "bw_y" ->
         [recs |-> <<CbRec(s, a, "enter", "before", "before", [wowner_s |-> s, wowner_att |-> a.cur])>>,
          a |-> [a EXCEPT !.pc = "b_gate"], done |-> FALSE]
    [] a.pc = "b_gate" ->
         LET a1 == [a EXCEPT !.wctr = a.wctr + 1]
             out == IF fails THEN "panic_string" ELSE "pass"
             r == <<CbRec(s, a1, "exit", "before", "before", [outcome |-> out, msg |-> Msg(s, a.cur, "before")])>>
         IN IF fails
            THEN [recs |-> r, a |-> [a1 EXCEPT !.pc = "b_failed_y", !.fail = "before",
                                               !.pf = PanicFields(s, a, "before")], done |-> FALSE]
            ELSE [recs |-> r, a |-> [a1 EXCEPT !.pc = "b_ok_y"], done |-> FALSE]
    [] a.pc = "b_ok_y" -> toSteps(a, <<ScEv(s, a.cur, "HookP", [h |-> "b"])>>)
    [] a.pc = "b_failed_y" -> toAfter(a, <<>>, "BeforeHookFailed")
    \* World::new inside run_step
    [] a.pc = "sw_gate" ->
         LET w == WorldId(s, a.cur)
             out == IF fails THEN "err" ELSE "ok"
             r == <<CbRec(s, [a EXCEPT !.world = w], "exit", "world", "world",
                          [outcome |-> out, msg |-> Msg(s, a.cur, "world")])>>
         IN IF fails
            THEN [recs |-> r, a |-> [a EXCEPT !.pc = "s_failed_y", !.fail = "step",
                                              !.pf = PanicFields(s, a, "world")], done |-> FALSE]
            ELSE [recs |-> r, a |-> [a EXCEPT !.pc = "sw_y", !.world = w], done |-> FALSE]
    [] a.pc = "sw_y" ->
         [recs |-> <<CbRec(s, a, "enter", "step", st.label, <<>>)>>,
          a |-> [a EXCEPT !.pc = "s_gate"], done |-> FALSE]
    [] a.pc = "s_gate" ->
         LET a1 == [a EXCEPT !.wctr = a.wctr + 1]
             out == IF fails THEN "panic_string" ELSE "pass"
             r == <<CbRec(s, a1, "exit", "step", st.label, [outcome |-> out, msg |-> Msg(s, a.cur, st.label)])>>
         IN IF fails
            THEN [recs |-> r, a |-> [a1 EXCEPT !.pc = "s_failed_y", !.fail = "step",
                                               !.pf = PanicFields(s, a, st.label)], done |-> FALSE]
            ELSE [recs |-> r, a |-> [a1 EXCEPT !.pc = "s_ok_y"], done |-> FALSE]
    [] a.pc = "s_ok_y" ->
         toSteps([a EXCEPT !.i = a.i + 1],
                 <<ScEv(s, a.cur, "StepP", [step |-> st.text, bg |-> st.bg, err |-> ""])>>)
    [] a.pc = "s_nomatch" ->
         toAfter([a EXCEPT !.fail = "skip"],
                 <<ScEv(s, a.cur, "StepSk", [step |-> st.text, bg |-> st.bg, err |-> ""])>>, "StepSkipped")
    [] a.pc = "s_ambig" ->
         toAfter([a EXCEPT !.fail = "step", !.pf = <<>>], <<>>, "StepFailed:ambig")
    [] a.pc = "s_failed_y" -> toAfter(a, <<>>, "StepFailed:panic")
    \* after hook
    [] a.pc = "a_gate" ->
         LET a1 == IF a.world # 0 THEN [a EXCEPT !.wctr = a.wctr + 1] ELSE a
             out == IF fails THEN "panic_string" ELSE "pass"
         IN [recs |-> <<CbRec(s, a1, "exit", "after", "after", [outcome |-> out, msg |-> Msg(s, a.cur, "after")])>>,
             a |-> [a1 EXCEPT !.pc = "tail", !.ares = IF fails THEN "fail" ELSE "pass"], done |-> FALSE]
    \* deferred failure event, after-hook events
    [] a.pc = "tail" ->
         LET hookEv == IF ~Cfg.after THEN <<>>
                       ELSE <<ScEv(s, a.cur, "HookS", [h |-> "a"]),
                              IF a.ares = "fail"
                              THEN ScEv(s, a.cur, "HookF", [h |-> "a", world |-> a.world # 0,
                                                            pty |-> "String", pmsg |-> Msg(s, a.cur, "after")])
                              ELSE ScEv(s, a.cur, "HookP", [h |-> "a"])>>
         IN [recs |-> FailureEvent(s, a) \o hookEv, a |-> [a EXCEPT !.pc = "fin"], done |-> FALSE]
    [] a.pc = "fin" ->
         [recs |-> <<ScEv(s, a.cur, "Finished", <<>>)>>, a |-> [a EXCEPT !.pc = "done_y"], done |-> FALSE]
    [] a.pc = "done_y" -> [recs |-> <<>>, a |-> a, done |-> TRUE]

\* pcs at which a user callback ends (its outcome is chosen here)
MaxId == 16   \* upper bound of attempt ids in the bounded instances (fairness only)
ChoicePc == {"bw_gate", "b_gate", "sw_gate", "s_gate", "a_gate"}

AttemptFailed(a) == a.fail \in {"before", "step"} \/ a.ares = "fail"

\* tracing: the forwarder (polled first by the biased select, draining its channel
\* before it yields) delivers every queued log before any attempt is polled again
FlushRecs == [i \in DOMAIN logChan |->
                ScEv(logChan[i].s, logChan[i].cur, "Log", [lmsg |-> logChan[i].msg])]

\* a callback that logs: one event right after it is entered, one right before it returns
RECURSIVE WithLogs(_, _)
WithLogs(recs, on) ==
  IF recs = <<>> THEN [recs |-> <<>>, logs |-> <<>>]
  ELSE LET h == Head(recs)
           t == WithLogs(Tail(recs), on)
           isCb == on /\ h.kind = "cb" /\ h.point \in LogPoints /\ h.cb \in {"enter", "exit"}
           msg == IF isCb THEN <<"L", h.s, h.att, h.label, h.cb>> ELSE <<>>
           lrec == Rec("cb", [cb |-> "log", point |-> h.point, s |-> h.s, att |-> h.att,
                              label |-> h.label, msg |-> msg, world |-> 0, ctr |-> 0])
           entry == [s |-> h.s, cur |-> h.att, msg |-> msg]
       IN IF ~isCb THEN [recs |-> <<h>> \o t.recs, logs |-> t.logs]
          ELSE IF h.cb = "enter" THEN [recs |-> <<h, lrec>> \o t.recs, logs |-> <<entry>> \o t.logs]
          ELSE [recs |-> <<lrec, h>> \o t.recs, logs |-> <<entry>> \o t.logs]

Step(id, fails, logs) ==
  /\ epc = "await" /\ id \in InRun
  /\ run[id].pc # "done_y"
  /\ (fails => run[id].pc \in ChoicePc /\ nfail < MaxFail)
  /\ (logs => nlogs < MaxLogs)
  /\ LET a == run[id]
         s == a.s
         r0 == AttStep(s, a, fails)
         wl == WithLogs(r0.recs, logs)
         r == [r0 EXCEPT !.recs = FlushRecs \o wl.recs]
         isFin == a.pc = "fin"
         failed == AttemptFailed(a)
         rt == RetrOf(s, a.cur)
         retry == isFin /\ failed /\ rt.retr /\ rt.left > 0
         delay == Cfg.scen[s].delay_us
         ne == Entry(s, a.cur + 1, now + delay, nid)
         qS2 == IF retry /\ Cfg.scen[s].serial THEN <<ne>> \o qS ELSE qS
         qC2 == IF retry /\ ~Cfg.scen[s].serial THEN <<ne>> \o qC ELSE qC
         extra == IF isFin
                  THEN (IF retry THEN <<Rec("enqueue", [qs |-> QRec(qS2), qc |-> QRec(qC2)])>> ELSE <<>>)
                       \o <<Rec("fin", [id |-> a.id, failed |-> failed, retried |-> retry])>>
                  ELSE <<>>
     IN /\ run' = [run EXCEPT ![id] = r.a]
        /\ qS' = qS2 /\ qC' = qC2
        /\ nid' = IF retry THEN nid + 1 ELSE nid
        /\ finQ' = IF isFin THEN Append(finQ, [s |-> s, id |-> a.id, failed |-> failed, retried |-> retry]) ELSE finQ
        /\ o' = Feed(o, r.recs \o extra)
        /\ logChan' = wl.logs
        /\ nlogs' = nlogs + Len(wl.logs)
        /\ (logs => wl.logs # <<>>)
  /\ nfail' = IF fails THEN nfail + 1 ELSE nfail
  /\ UNCHANGED <<pPos, pDone, epc, slots, batch, serialStarted, cntF, cntR, now>>

\* run_scenarios.next() returns one finished future; slots += 1; drain
Completed(id) ==
  /\ epc = "await" /\ id \in InRun /\ run[id].pc = "done_y"
  /\ LET slots2 == IF slots >= 0 THEN slots + 1 ELSE slots
         RECURSIVE Drain(_, _, _, _)
         \* returns [recs, cf, cr, trip]
         Drain(fq, cf, cr, acc) ==
           IF fq = <<>> THEN [recs |-> acc.recs, cf |-> cf, cr |-> cr, trip |-> acc.trip]
           ELSE LET x == Head(fq)
                    f == Cfg.scen[x.s].f
                    r == Cfg.scen[x.s].r
                    cr2 == IF r # "" /\ ~x.retried THEN [cr EXCEPT ![r] = @ + 1] ELSE cr
                    rfin == r # "" /\ ~x.retried /\ cr2[r] = Cfg.rules[r].nscen
                    cf2 == IF ~x.retried THEN [cf EXCEPT ![f] = @ + 1] ELSE cf
                    ffin == ~x.retried /\ cf2[f] = Cfg.feats[f].nscen
                    cr3 == IF rfin THEN [cr2 EXCEPT ![r] = -2] ELSE cr2   \* -2: removed
                    cf3 == IF ffin THEN [cf2 EXCEPT ![f] = -2] ELSE cf2
                    trip == Cfg.fail_fast /\ x.failed /\ ~x.retried
                    recs == (IF rfin THEN <<EvRec([t |-> "RuleF", f |-> f, r |-> r])>> ELSE <<>>)
                            \o (IF ffin THEN <<EvRec([t |-> "FeatF", f |-> f])>> ELSE <<>>)
                            \o <<Rec("drained", [id |-> x.id, failed |-> x.failed, retried |-> x.retried])>>
                            \o (IF trip THEN <<Rec("trip", <<>>)>> ELSE <<>>)
                IN Drain(Tail(fq), cf3, cr3, [recs |-> acc.recs \o recs, trip |-> acc.trip \/ trip])
         d == Drain(finQ, cntF, cntR, [recs |-> <<>>, trip |-> FALSE])
     IN /\ run' = [x \in InRun \ {id} |-> run[x]]
        /\ cntF' = d.cf /\ cntR' = d.cr
        /\ slots' = IF d.trip THEN -2 ELSE slots2
        /\ o' = Feed(o, FlushRecs \o <<Rec("completed", [slots |-> slots2])>> \o d.recs)
  /\ finQ' = <<>> /\ epc' = "get" /\ logChan' = <<>>
  /\ UNCHANGED <<pPos, pDone, qS, qC, batch, serialStarted, now, nid, nfail, nlogs>>

\* finish_all_rules_and_features, run Finished, restore the panic hook
Close ==
  /\ epc = "close"
  /\ LET openR == {r \in Rules : cntR[r] >= 0}
         openF == {f \in Feats : cntF[f] >= 0}
         RECURSIVE SetToSeq(_)
         SetToSeq(S) == IF S = {} THEN <<>> ELSE LET x == CHOOSE y \in S : TRUE IN <<x>> \o SetToSeq(S \ {x})
         rr == [i \in DOMAIN SetToSeq(openR) |->
                  EvRec([t |-> "RuleF", f |-> Cfg.rules[SetToSeq(openR)[i]].f, r |-> SetToSeq(openR)[i]])]
         ff == [i \in DOMAIN SetToSeq(openF) |-> EvRec([t |-> "FeatF", f |-> SetToSeq(openF)[i]])]
     IN o' = Feed(o, rr \o ff \o <<EvRec([t |-> "Finished"]), Rec("hook_restored", <<>>),
                                   Rec("end", [sched_diverged |-> FALSE]),
                                   Rec("post", [sentinel_calls |-> 0, hook_restored |-> TRUE, hung |-> FALSE])>>)
  /\ epc' = "done"
  /\ UNCHANGED <<pPos, pDone, qS, qC, slots, batch, run, serialStarted, finQ, cntF, cntR, now, nid, nfail, logChan, nlogs>>

\* time passes while some retry waits for its delay
Tick ==
  /\ (\E i \in DOMAIN qS : ~IsReady(qS[i])) \/ (\E j \in DOMAIN qC : ~IsReady(qC[j]))
  /\ now' = now + 1
  /\ UNCHANGED <<pPos, pDone, qS, qC, epc, slots, batch, run, serialStarted, finQ, cntF, cntR, nid, nfail, logChan, nlogs, o>>

Done == epc = "done" /\ UNCHANGED vars

Next ==
  \/ Insert \/ PErr \/ PFin
  \/ ExecStart \/ Get \/ Resume \/ Dispatch \/ Close
  \/ \E id \in InRun : \E fails \in BOOLEAN : \E logs \in BOOLEAN : Step(id, fails, logs)
  \/ \E id \in InRun : Completed(id)
  \/ Tick
  \/ Done

Fairness ==
  /\ WF_vars(ExecStart) /\ WF_vars(Get) /\ WF_vars(Resume) /\ WF_vars(Dispatch) /\ WF_vars(Close)
  /\ \A id \in 1..MaxId : WF_vars(Step(id, FALSE, FALSE) \/ Step(id, TRUE, FALSE)) /\ WF_vars(Completed(id))
  /\ WF_vars(Tick)
  /\ SF_vars(Insert) /\ SF_vars(PErr) /\ SF_vars(PFin)

Spec == Init /\ [][Next]_vars
LiveSpec == Spec /\ Fairness

---------------------------------------------------------------------------
NoViolation == o.viol = {}
Terminates == <>(epc = "done")
\* inductive core of C06
SlotsInv == slots >= 0 => slots + Cardinality(InRun) = Cfg.limit
=============================================================================
