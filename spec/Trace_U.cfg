SPECIFICATION Spec
CONSTANT U <- TraceU
POSTCONDITION AllChecked
CHECK_DEADLOCK FALSE
