------------------------------- MODULE Codegen -------------------------------
(***************************************************************************)
(* C19: what the step attributes of the zoo (harness/src/zoo.rs) must      *)
(* register and how step texts must dispatch.                              *)
(*                                                                         *)
(* A definition descriptor: the function, the keyword of the attribute,    *)
(* the matcher kind (literal | regex | expr) and, per query text, whether  *)
(* the matcher as written matches it and with which arguments.  Dispatch   *)
(* is derived from the descriptors alone: not found / invoked(call) /      *)
(* failed (argument does not parse with FromStr, or the function returned  *)
(* Err).  The match column is the semantics of literals ("identical        *)
(* text"), of the regex as written and of the Cucumber Expression.         *)
(***************************************************************************)
EXTENDS Integers, Sequences, FiniteSets, TLC

Range(seq) == {seq[i] : i \in DOMAIN seq}

Def(fn, kw, kind, pat) == [fn |-> fn, kw |-> kw, kind |-> kind, pat |-> pat]
Defs == {
  Def("lit", "Given", "literal", "a literal step"),
  Def("lit_when", "When", "literal", "a literal step"),
  Def("eat", "When", "regex", "^eat (\\d+) (\\w+)$"),
  Def("have", "Then", "expr", "I have {int} cucumber(s)"),
  Def("slice", "Given", "regex", "^slice (\\w+) (\\w+)$"),
  Def("with_step", "When", "regex", "^with step$"),
  Def("fails", "Then", "regex", "^fails$"),
  Def("multi", "Given", "regex", "^multi (\\d+)$"),
  Def("multi", "When", "regex", "^multi (\\d+)$"),
  Def("animal", "Given", "expr", "a {animal} says {string}"),
  Def("opt", "Then", "regex", "^opt(?: (\\d+))?$"),
  Def("user", "When", "expr", "user {string} has {int} apple(s)"),
  Def("say3", "Then", "expr", "{string} tells {string} the word {word}"),
  Def("price", "Given", "expr", "price is {float}"),
  Def("mv", "When", "regex", "^move (left|right) by (-?\\d+)$"),
  Def("afail", "Then", "regex", "^async fails$"),
  Def("both", "Given", "regex", "^both (\\w+) (\\w+)$"),
  Def("meta", "Given", "literal", "a.b (c)?"),
  Def("meets", "When", "expr", "a {animal} meets {int} {animal}(s)"),
  Def("anon", "Then", "expr", "anything {} goes"),                 \* anonymous parameter
  Def("eatdrink", "Given", "expr", "I eat/drink {int} thing(s)"),  \* alternative text
  Def("astep", "When", "regex", "^astep (\\d+)$"),                  \* async + typed + #[step] + Result
  Def("metas", "Then", "literal", "1+1 = 2 | [x] ^$ {int}"),       \* a literal is not an expression
  Def("twice_lit", "Given", "regex", "^twice$"),                   \* the same fn `twice` under two attributes
  Def("twice", "Then", "regex", "^twice (\\d+)$"),
  Def("okres", "Given", "regex", "^okres$"),
  Def("alias_fails", "Then", "regex", "^alias fails$"),            \* returns Err through a type alias of Result
  Def("opts", "When", "regex", "^opts (\\w*) (\\w*)(?: (\\w+))?$"),   \* slice argument, captures may be empty
  Def("calc", "When", "expr", "calc \\(x\\) {word}") }              \* escaped parentheses

\* M(fn, text): the matcher of fn matches text; call = what the function records when all
\* arguments parse; ok = FALSE if an argument fails FromStr or the function returns Err
M(fn, text, call, ok) == [fn |-> fn, text |-> text, call |-> call, ok |-> ok]
Matches == {
  M("lit", "a literal step", "lit()", TRUE),
  M("lit_when", "a literal step", "lit_when()", TRUE),
  M("eat", "eat 3 apples", "eat(3,apples)", TRUE),
  M("eat", "eat 99999999999 apples", "", FALSE),          \* u32 overflow
  M("have", "I have 3 cucumbers", "have(3)", TRUE),
  M("have", "I have 1 cucumber", "have(1)", TRUE),
  M("have", "I have -2 cucumbers", "have(-2)", TRUE),
  M("slice", "slice ab cd", "slice(ab,cd)", TRUE),
  M("with_step", "with step", "with_step(with step)", TRUE),
  M("fails", "fails", "fails()", FALSE),                   \* returned Err
  M("multi", "multi 7", "multi(7)", TRUE),
  M("multi", "multi 300", "", FALSE),                      \* u8 overflow
  M("animal", "a cat says \"meow\"", "animal(cat,meow)", TRUE),
  M("animal", "a dog says 'woof'", "animal(dog,woof)", TRUE),
  M("opt", "opt", "opt()", TRUE),                          \* group did not participate: ""
  M("opt", "opt 5", "opt(5)", TRUE),
  \* a multi-group parameter ({string}) followed by further typed arguments
  M("user", "user \"bob\" has 3 apples", "user(bob,3)", TRUE),
  M("user", "user 'al' has 1 apple", "user(al,1)", TRUE),
  M("user", "user \"\" has 0 apples", "user(,0)", TRUE),
  M("say3", "\"alice\" tells \"bob\" the word hi", "say3(alice,bob,hi)", TRUE),
  M("say3", "'alice' tells \"bob\" the word hi", "say3(alice,bob,hi)", TRUE),
  M("price", "price is 1.5", "price(1.5)", TRUE),
  M("price", "price is -2", "price(-2)", TRUE),
  M("mv", "move left by 3", "mv(left,3)", TRUE),
  M("mv", "move right by -4", "mv(right,-4)", TRUE),
  M("afail", "async fails", "afail()", FALSE),
  M("both", "both ab cd", "both(both ab cd;ab,cd)", TRUE),
  M("meta", "a.b (c)?", "meta()", TRUE),
  M("meets", "a cat meets 2 dogs", "meets(cat,2,dog)", TRUE),
  M("meets", "a dog meets 1 cat", "meets(dog,1,cat)", TRUE),
  M("anon", "anything x y goes", "anon(x y)", TRUE),
  M("anon", "anything  goes", "anon()", TRUE),               \* {} matches the empty string
  M("eatdrink", "I eat 2 things", "eatdrink(2)", TRUE),
  M("eatdrink", "I drink 1 thing", "eatdrink(1)", TRUE),
  M("astep", "astep 7", "astep(7;astep 7)", TRUE),
  M("astep", "astep 99999", "", FALSE),                      \* u16 overflow in an async fn
  M("metas", "1+1 = 2 | [x] ^$ {int}", "metas()", TRUE),
  M("twice_lit", "twice", "twice()", TRUE),
  M("twice", "twice 4", "twice(4)", TRUE),
  M("okres", "okres", "okres()", TRUE),
  M("alias_fails", "alias fails", "alias_fails()", FALSE),
  M("opts", "opts a b c", "opts(a,b,c)", TRUE),
  M("opts", "opts  b", "opts(,b,)", TRUE),          \* an empty capture and a group that did not participate stay in the slice
  M("opts", "opts a ", "opts(a,,)", TRUE),
  M("calc", "calc (x) y", "calc(y)", TRUE) }

Texts == {m.text : m \in Matches} \cup
  {"a literal step ", "A literal step", "a literal", "eat x apples", "I have x cucumbers",
   "a cow says \"moo\"", "multi", "slice ab", "with step!", "I have 3 cucumberss",
   "axb c", "a.b c", "a.b ", "move up by 3", "price is x", "user bob has 3 apples",
   "a cat meets 2 cows", "both ab",
   "anything goes", "I eat/drink 1 thing", "I eats 1 thing", "astep x", "1+1 = 2 | [x] ^$ 3", "11 = 2 | [x] ^$ {int}",
   "twice x", "okres ", "calc x y", "calc \\(x\\) y"}
Keywords == {"Given", "When", "Then"}

Dispatch(kw, text) ==
  LET cands == {d \in Defs : d.kw = kw /\ \E m \in Matches : m.fn = d.fn /\ m.text = text} IN
  IF cands = {} THEN [res |-> "notfound", call |-> ""]
  ELSE IF Cardinality(cands) > 1 THEN [res |-> "ambiguous", call |-> ""]
  ELSE LET d == CHOOSE x \in cands : TRUE
           m == CHOOSE x \in Matches : x.fn = d.fn /\ x.text = text
       IN IF m.ok THEN [res |-> "invoked", call |-> m.call]
          ELSE [res |-> "failed", call |-> m.call]

\* sanity of the description itself (checked by TLC)
LiteralsMatchOnlyThemselves ==
  \A d \in Defs : d.kind = "literal" =>
     \A m \in Matches : m.fn = d.fn => m.text = d.pat
OneDefPerAttribute ==
  \A d1, d2 \in Defs : (d1.fn = d2.fn /\ d1.kw = d2.kw) => d1 = d2
NoAmbiguityInZoo == \A kw \in Keywords, t \in Texts : Dispatch(kw, t).res # "ambiguous"
=============================================================================
