"""`./check <Cxx> --replay <file>`: re-runs exactly the case stored in a replay
file against the current tree.  Exit 1 (and a VIOLATION line) if the violation
reproduces, 0 if the case now satisfies the property, 2 on tool errors."""
import json
import os

import common
from common import SPEC, WORK, ToolError, log, read_ndjson, run_harness, tlc, tlc_lines, write_ndjson, require_ok

RUNNER = {"C01", "C02", "C03", "C04", "C05", "C06", "C07", "C08", "C09", "C10", "C20", "C18"}


def _vector(harness_cmd, trace_tla, recs, cfg="Trace_Plain.cfg", extra_args=()):
    inp = os.path.join(WORK, "replay_in.ndjson")
    outp = os.path.join(WORK, "replay_out.ndjson")
    write_ndjson(inp, recs)
    run_harness([harness_cmd, inp, outp] + list(extra_args))
    r = tlc(trace_tla, os.path.join(SPEC, cfg), workers=1, env={"TRACE": outp}, timeout=900,
            tag="replay", xss=True)
    require_ok(r, trace_tla)
    return read_ndjson(outp), tlc_lines(r["out"], "VERDICT")


def run(prop, path):
    payload = json.load(open(path))
    bad = []
    if prop in RUNNER and payload.get("case"):
        import engine_runner
        case = payload["case"]
        if case["cfg"].get("tracing"):
            summ = engine_runner.drive_and_validate([case], "replay")[0][case["id"]]
        else:
            summ = engine_runner.drive_and_validate([case], "replay")[0][case["id"]]
        bad = [v for v in summ["viol"] if v[0] == prop]
        log(json.dumps({"case": case["id"], "violations": summ["viol"], "outcomes": summ["outcomes"]}, indent=1))
    elif prop == "C11":
        import engine_writers
        rec = payload["record"]
        recs, verdicts, _ = engine_writers.c11_conform([rec], tag="c11replay")
        bad = verdicts[0]["viol"] or ([verdicts[0]["panic"]] if verdicts[0]["panic"] else [])
        log(json.dumps({"forwarded_per_input": recs[0]["outs"], "verdict": verdicts[0]}, indent=1)[:4000])
    elif prop in ("C12", "C01"):
        import engine_writers
        rec = dict(payload["record"], id="replay", pipelines=engine_writers.SUM_PIPELINES)
        recs, vs = _vector("replay-summarize", "Trace_Summarize.tla", [rec], cfg="Trace_Summarize.cfg")
        bad = [v for v in vs[0]["viol"] if v[0] == prop]
        log(json.dumps({"actual": recs[0]["actual"], "viol": vs[0]["viol"]}, indent=1))
    elif prop == "C13":
        rec = dict(payload["record"], id="replay")
        recs, vs = _vector("replay-comb", "Trace_Combinators.tla", [rec], cfg="Trace_Combinators.cfg")
        bad = vs[0]["bad"]
        log(json.dumps(vs[0], indent=1))
    elif prop == "C14":
        import engine_writers
        rec = dict(payload["record"], id="replay")
        vs, recs = engine_writers.c14_judge([{"id": "replay", "universe": rec["universe"],
                                              "stream": rec["stream"], "opts": rec["opts"]}], "replay")
        bad = vs["replay"]["bad"]
        # a stored known-finding shape is not a new violation
        known = {f["signature"] for f in common.known_findings() if f.get("status") == "open"}
        nopath = not rec["universe"][0].get("path", True)
        sfx = (":pathless" if nopath else "") + \
            (":decorated-" + rec["opts"]["decorate"] if rec["opts"].get("decorate") else "")
        bad = [b for b in bad if f"C14:{b[0]}:{b[1]}{sfx}" not in known and f"C14:{b[0]}:{b[1]}" not in known]
        log(json.dumps(vs["replay"], indent=1)[:3000])
    elif prop == "C15":
        recs, vs = _vector("pure-filter", "Trace_Filter.tla", [dict(payload["record"], id="replay")], cfg="Trace_U.cfg")
        bad = vs[0]["bad"]
    elif prop == "C16":
        recs, vs = _vector("pure-outline", "Trace_Outline.tla", [dict(payload["record"], id="replay")],
                           extra_args=[os.path.join(WORK, "replay_tmp")])
        bad = vs[0]["bad"]
    elif prop == "C17":
        import engine_pure
        regs = payload["record"]["regs"]
        # the stored registration order, looked up again (tables come from the specification)
        vectors, _, _ = engine_pure.generate("Gen_StepMatch.tla", [("M", [("MaxDefs", "= 0")])], "c17replay")
        v = dict(vectors[0], regs=regs, id="replay")
        recs, vs = engine_pure.validate([v], "pure-stepmatch", "Trace_StepMatch.tla", "c17replay")
        bad = vs[0]["bad"] + vs[0]["order"]
        log(json.dumps(vs[0], indent=1)[:2000])
    elif prop == "C19":
        import engine_pure
        # the zoo is compiled in: look the stored query up again
        q = payload["query"]
        res = engine_pure.check_c19("quick")
        bad = [v for v in res["violations"]
               if v["replay"]["query"]["kw"] == q["kw"] and v["replay"]["query"]["text"] == q["text"]]
        log(json.dumps({"query": [q["kw"], q["text"]], "still_bad": [b["what"] for b in bad]}, indent=1))
    elif prop == "C18":
        recs, vs = _vector("pure-retry", "Trace_RetryOpts.tla", [dict(payload["record"], id="replay")])
        bad = vs[0]["bad"]
    else:
        raise ToolError(f"no replay support for {prop}")
    if bad:
        print(f"VIOLATION property={prop} replay={path}")
        log("reproduced:", json.dumps(bad)[:1000])
        return 1
    print(f"OK property={prop} replay={path} (the stored case satisfies the property on this tree)")
    return 0
