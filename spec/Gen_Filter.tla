------------------------------ MODULE Gen_Filter ------------------------------
(* C15, spec -> impl: filter vectors over the universe UF, one JSON line each. *)
EXTENDS Filter, Universes, Json
CONSTANT Group
VARIABLE v

Names == ScenNames(U)
SomeSets == {{}, {"S1"}, {"S2", "S4"}, {"S1", "S3", "S5"}, Names}
\* A: every expression of depth <= 2 as --tags (closure accepts everything)
VecA == {[useRe |-> FALSE, reSet |-> {}, useTags |-> TRUE, expr |-> e, closure |-> Names, dup |-> d]
          : e \in Depth2, d \in BOOLEAN}
\* B: the 2^3 presence combinations x name sets x closure sets, two expressions
VecB == {[useRe |-> ur, reSet |-> rs, useTags |-> ut, expr |-> e, closure |-> cl, dup |-> d]
          : ur \in BOOLEAN, ut \in BOOLEAN, rs \in SomeSets, cl \in SomeSets, d \in BOOLEAN,
            e \in {And(Tag("a"), Not(Tag("b"))), Or(Tag("c"), Tag("b"))}}
Vectors == CASE Group = "A" -> VecA [] Group = "B" -> VecB
Init == v \in Vectors
Next == UNCHANGED v
Spec == Init /\ [][Next]_v
Dump == PrintT(<<"REPLAY", ToJson([universe |-> U, vec |-> v])>>)
LawsHold == Laws
=============================================================================
