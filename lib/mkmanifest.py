#!/usr/bin/env python3
"""Regenerates /verif/MANIFEST.json from the table below."""
import json
import os

VERIF = os.path.dirname(os.path.dirname(os.path.abspath(__file__)))
ALL = [f"C{i:02d}" for i in range(1, 21)]

CHECKS = {
    "C11": dict(
        engine="writers-replay",
        technique="TLA+ model (Contract.tla + Normalize.tla) checked by TLC; TLC-generated contract "
                  "streams replayed into the real writer::Normalize; recorded (input, forwarded) "
                  "histories validated by TLC against the property monitor (Trace_Normalize.tla)",
        level="model_checking",
        text="TLC proves, for every contract-abiding linearization of small universes, that the "
             "reference queue algorithm satisfies a property-level monitor (sequential, lossless, "
             "order-preserving, immediate events, no lag at the head, pass-through); the same "
             "monitor then judges histories recorded from the real Normalize on TLC-generated "
             "streams, so a code change that breaks the statement is rejected even if it keeps "
             "some other queue discipline.",
        design_ref="DESIGN.md §3 C11",
        note="bounded universes (<= 3 features / 3 scenarios / 1 retry); simulation-mode sampling "
             "for replay; harness projection trusted",
    ),
}

NOT_YET = "check not built yet in this round (planned: see DESIGN.md §3)"


def main():
    checks = []
    for pid in ALL:
        if pid not in CHECKS:
            continue
        c = CHECKS[pid]
        checks.append({
            "property_id": pid,
            "quick_cmd": f"./check {pid} --tier quick",
            "thorough_cmd": f"./check {pid} --tier thorough",
            "evidence_file": f"/verif/evidence/{pid}.json",
            "replay_cmd_template": f"./check {pid} --replay {{path}}",
            "engine": c["engine"],
            "level_claimed": {"category": c["level"], "text": c["text"],
                              "design_ref": c["design_ref"]},
            "level_note": c["note"],
            "technique": c["technique"],
        })
    m = {
        "version": 1,
        "setup_cmd": "cd /verif/harness && cargo build --offline 2>&1 | tail -3 && cd /verif && ./check setup",
        "hooks": {
            "guard": "cucumber_verif",
            "enable": "RUSTFLAGS='--cfg cucumber_verif' via /verif/harness/.cargo/config.toml "
                      "(the harness has a path dependency on /repo and is rebuilt by every check)",
            "baseline_off_cmd": "cd /repo && cargo test --workspace --no-fail-fast --offline",
            "source_commits": ["8cd4e4c"],
            "add_only": True,
        },
        "engines": [
            {"name": "writers-replay", "path": "lib/engine_writers.py",
             "serves_properties": ["C01", "C11", "C12", "C13", "C14"],
             "kind_free_text": "TLC model checking + TLC-generated streams replayed into the real "
                               "writers + TLC validation of the recorded histories"},
        ],
        "checks": checks,
        "not_applicable": [{"property_id": p, "reason": NOT_YET} for p in ALL if p not in CHECKS],
        "notes": "All checks: exit 0 held / 1 VIOLATION line / 2 tool error. "
                 "Known findings: /verif/known_findings.json.",
    }
    json.dump(m, open(os.path.join(VERIF, "MANIFEST.json"), "w"), indent=1)


if __name__ == "__main__":
    main()
