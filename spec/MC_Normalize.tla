---------------------------- MODULE MC_Normalize ----------------------------
(***************************************************************************)
(* C11, model side: the reference Normalize algorithm satisfies the        *)
(* property-level monitor for EVERY contract-abiding linearization of a    *)
(* small universe.  No history variable: the monitor keeps only the        *)
(* bracket automaton and the set of waiting events.                        *)
(***************************************************************************)
EXTENDS Contract, Normalize, Universes

VARIABLES nst, mon
vars == <<cvars, nst, mon>>

Init == CInit /\ nst = NInit /\ mon = MonInit

Step ==
  /\ CNext
  /\ LET h == NHandle(nst, ev') IN
     /\ nst' = h.n
     /\ mon' = MonStep(mon, ev', h.out)

Done == CDone /\ UNCHANGED vars

Next == Step \/ Done
Spec == Init /\ [][Next]_vars

NoViolation == mon.viol = {}
NoPanic     == ~nst.panic
EndOK       == CDone => MonEnd(mon).viol = {}
\* every complete run leaves the queue empty
QueueDrained == CDone => nst.q = <<>> /\ nst.cfin = "emitted"
=============================================================================
