------------------------------ MODULE Gen_Outline ------------------------------
(* C16, spec -> impl: outline vectors, one JSON line per feature. *)
EXTENDS Outline, Json
CONSTANT Group
VARIABLE v

Step(text, doc, cells) == [text |-> text, doc |-> doc, cells |-> cells]
Tb(tags, header, rows) == [tags |-> tags, header |-> header, rows |-> rows]
Scn(name, tags, steps, tables) == [name |-> name, tags |-> tags, steps |-> steps, tables |-> tables]
Feat(scs, rscs) == [scenarios |-> scs, ruleScenarios |-> rscs]

\* value classes: plain, looks like a placeholder, contains '>', regex replacement
\* syntax, regex metacharacters, backslash, empty
Values == {"v1", "<a>", "x>y", "$1", ".*", "[x]+?", ""}
TextShapes == { <<Lit("eat "), Ph("a")>>,                 \* trailing placeholder
                <<Ph("a"), Ph("b")>>,                     \* adjacent placeholders
                <<Ph("a"), Lit(" and "), Ph("a")>>,       \* repeated placeholder
                <<Lit("no placeholder")>> }
Plain1 == Scn(<<Lit("plain")>>, <<"t0">>, <<Step(<<Lit("a < b > c")>>, <<>>, <<>>)>>, <<>>)

\* A: text shapes x value pairs, one table with two rows, a plain scenario before and after
VecA == {Feat(<<Plain1,
               Scn(<<Lit("N "), Ph("a")>>, <<"o1">>, <<Step(sh, <<>>, <<>>)>>,
                   <<Tb(<<>>, <<"a", "b">>, <<<<x, y>>, <<y, x>>>>)>>),
               Plain1>>, <<>>)
          : sh \in TextShapes, x \in Values, y \in {"v2", "<b>", ""}}
\* B: doc strings, step tables, several (tagged) tables, header-only tables, outline in a rule
VecB == {Feat(<<Scn(<<Lit("M")>>, <<"o1", "o2">>,
                   <<Step(<<Lit("s1 "), Ph("a")>>, <<Lit("doc "), Ph("b"), Lit(" end")>>, <<>>),
                     Step(<<Lit("s2")>>, <<>>, << <<Ph("a")>>, <<Lit("cell")>>, <<Ph("b"), Ph("a")>> >>)>>,
                   tbs)>>,
              <<Plain1, Scn(<<Lit("R "), Ph("b")>>, <<>>, <<Step(<<Ph("b")>>, <<>>, <<>>)>>, tbs), Plain1>>)
          : tbs \in UNION {{ <<Tb(<<"t1">>, <<"a", "b">>, <<<<"v1", x>>>>), Tb(<<>>, <<"b", "a">>, <<<<x, "v3">>, <<"v4", "v5">>>>)>>,
                              <<Tb(<<"t1", "t2">>, <<"a", "b">>, <<>>)>>,            \* header only: no scenario
                              <<Tb(<<>>, <<"a", "b">>, <<>>), Tb(<<"t3">>, <<"a", "b">>, <<<<x, x>>>>)>> } : x \in Values} }
\* C: placeholders naming no column
VecC == {Feat(<<Scn(<<Lit("U "), Ph(n)>>, <<>>, <<Step(<<Ph("a"), Ph(m)>>, <<>>, <<>>)>>,
                   <<Tb(<<>>, <<"a", "b">>, rows)>>)>>, <<>>)
          : n \in {"a", "zz"}, m \in {"b", "yy", "a"}, rows \in {<<>>, <<<<"v1", "v2">>>>}}
\* D: placeholder names with punctuation / non-ASCII letters / digits, values with a backslash or
\* `${..}` replacement syntax, three tables with three rows, placeholders in the name, a step, a doc
\* string and a cell at once
NamesD == {"a.b", "é", "x-1", "A_2"}
VecD == {LET n == p[1]   m == p[2] IN
         Feat(<<Scn(<<Ph(n), Lit(" / "), Ph(m)>>, <<"o1">>,
                   <<Step(<<Lit("do "), Ph(m), Ph(n)>>, <<Ph(n)>>,
                          << <<Ph(m), Lit("k")>>, <<Lit("c2")>>, <<Ph(n)>>, <<Ph(m), Ph(n)>> >>)>>,   \* a 2 x 2 table
                   <<Tb(<<"t1">>, <<n, m>>, <<<<"v1", x>>, <<x, "v2">>, <<"", "v3">>>>),
                     Tb(<<>>, <<m, n>>, <<<<"w1", "w2">>>>),
                     Tb(<<"t2">>, <<n, "unused", m>>, <<<<x, "u", x>>, <<"v7", "u", "v8">>, <<"v9", "", "">>>>)>>),
               Plain1>>, <<>>)
          : p \in {q \in NamesD \X NamesD : q[1] # q[2]}, x \in {"\\1", "${a}", "<é>", "a.b"}}
Vectors == CASE Group = "A" -> VecA [] Group = "B" -> VecB [] Group = "C" -> VecC [] Group = "D" -> VecD
Init == v \in Vectors
Next == UNCHANGED v
Spec == Init /\ [][Next]_v
Dump == PrintT(<<"REPLAY", ToJson([feature |-> v])>>)
=============================================================================
