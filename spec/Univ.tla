-------------------------------- MODULE Univ --------------------------------
(* The universe constant shared by the writer-side specifications. *)
EXTENDS Events
CONSTANT U
=============================================================================
