------------------------------ MODULE RetryOpts ------------------------------
(***************************************************************************)
(* C18: resolution of a scenario's retry options                           *)
(* (RetryOptions::parse_from_tags, src/runner/basic.rs, and the CLI /      *)
(* builder merge in Runner::run), plus the --concurrency / --fail-fast     *)
(* merges.                                                                 *)
(*                                                                         *)
(* A retry tag is abstracted to [n, d]: count and delay it names, -1 for a *)
(* part it omits:  @retry = [-1,-1], @retry(N) = [N,-1],                   *)
(* @retry.after(D) = [-1,D], @retry(N).after(D) = [N,D].  NoTag = no such  *)
(* tag on that level.  -1 also stands for an absent CLI / builder value.   *)
(***************************************************************************)
EXTENDS Integers, Sequences, FiniteSets, TLC

NoTag == [n |-> -2, d |-> -2]
Opt(a, b) == IF a # -1 THEN a ELSE b       \* Option::or

\* v: one vector (see Vectors below)
Nearest(v) ==
  IF v.ts # NoTag THEN v.ts
  ELSE IF v.hasRule /\ v.tr # NoTag THEN v.tr
  ELSE v.tf

\* does tag `flt` appear among the inherited tags?
HasFlt(v) == v.fltLevel = "s" \/ (v.fltLevel = "r" /\ v.hasRule) \/ v.fltLevel = "f"
\* cli filter is "@flt", builder filter is "not @flt" (when given)
FilterGiven(v) == v.cliFilter \/ v.bldFilter
FilterMatches(v) == IF v.cliFilter THEN HasFlt(v) ELSE ~HasFlt(v)

Resolve(v) ==
  LET retry == Opt(v.cliRetry, v.bldRetry)
      after == Opt(v.cliAfter, v.bldAfter)
      tag == Nearest(v)
      matched == IF FilterGiven(v) THEN FilterMatches(v) ELSE retry # -1 \/ after # -1
  IN IF tag = NoTag /\ ~matched THEN [some |-> FALSE, retries |-> 0, after |-> -1]
     ELSE [some |-> TRUE,
           retries |-> IF tag # NoTag /\ tag.n # -1 THEN tag.n ELSE IF retry # -1 THEN retry ELSE 1,
           after |-> IF tag # NoTag /\ tag.d # -1 THEN tag.d ELSE after]

\* concurrency: cli.or(builder); builder: 0 = left at its default (64), -1 = unlimited
Limit(v) == IF v.cliConc # -1 THEN v.cliConc
            ELSE IF v.bldConc = 0 THEN 64 ELSE v.bldConc
FailFast(v) == v.cliFF \/ v.bldFF

Tags == {NoTag, [n |-> -1, d |-> -1], [n |-> 2, d |-> -1], [n |-> -1, d |-> 3], [n |-> 2, d |-> 3],
         [n |-> 3, d |-> 90], [n |-> -1, d |-> 120],     \* rendered as 1m30s and 2min
         [n |-> 2, d |-> 0]}                             \* an explicit zero delay is a delay: it wins over --retry-after

Base == [ts |-> NoTag, tr |-> NoTag, tf |-> NoTag, hasRule |-> TRUE,
         cliRetry |-> -1, bldRetry |-> -1, cliAfter |-> -1, bldAfter |-> -1,
         cliFilter |-> FALSE, bldFilter |-> FALSE, fltLevel |-> "none",
         cliConc |-> -1, bldConc |-> 0, cliFF |-> FALSE, bldFF |-> FALSE]

\* group A: tag placement x CLI/builder counts and delays
VecA == {[Base EXCEPT !.ts = a, !.tr = b, !.tf = c, !.hasRule = h,
                      !.cliRetry = cr, !.bldRetry = br, !.cliAfter = ca, !.bldAfter = ba]
          : a \in Tags, b \in Tags, c \in Tags, h \in BOOLEAN,
            cr \in {-1, 4}, br \in {-1, 5}, ca \in {-1, 7}, ba \in {-1, 9}}
\* group B: tag filters
VecB == {[Base EXCEPT !.ts = a, !.tf = c, !.hasRule = h, !.cliFilter = cf, !.bldFilter = bf,
                      !.fltLevel = fl, !.cliRetry = cr, !.bldAfter = ba]
          : a \in {NoTag, [n |-> 2, d |-> -1]}, c \in {NoTag, [n |-> -1, d |-> 3]}, h \in BOOLEAN,
            cf \in BOOLEAN, bf \in BOOLEAN, fl \in {"none", "s", "r", "f"},
            cr \in {-1, 4}, ba \in {-1, 9}}
\* group C: concurrency and fail-fast
VecC == {[Base EXCEPT !.cliConc = cc, !.bldConc = bc, !.cliFF = cf, !.bldFF = bf]
          : cc \in {-1, 2, 5, 100}, bc \in {0, -1, 3}, cf \in BOOLEAN, bf \in BOOLEAN}   \* CLI below and above the builder value / the default 64
=============================================================================
