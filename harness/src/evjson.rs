//! Harness-side projection of stream items to JSON (independent of the hook's
//! `verif::describe`; additionally decodes panic payloads).

use std::any::Any;

use cucumber::{
    Event,
    event::{
        Cucumber, Feature, Hook, HookType, Info, Retries, Rule, Scenario, Step,
        StepError,
    },
    parser,
};
use serde_json::{Map, Value, json};

/// Custom panic payload used by the test double.
#[derive(Clone, Debug)]
pub struct Custom(pub String);

/// Decodes a panic payload into (`type`, `text`).
pub fn payload(info: &Info) -> (String, String) {
    let any: &(dyn Any + Send) = &**info;
    if let Some(s) = any.downcast_ref::<String>() {
        ("String".into(), s.clone())
    } else if let Some(s) = any.downcast_ref::<&'static str>() {
        ("str".into(), (*s).to_owned())
    } else if let Some(c) = any.downcast_ref::<Custom>() {
        ("Custom".into(), c.0.clone())
    } else {
        ("other".into(), String::new())
    }
}

/// The test double's message inside a payload text (the runner may prefix
/// it, e.g. "failed to initialize World: ").
fn pmsg(text: &str) -> String {
    text.find("P|").map_or_else(String::new, |i| text[i..].to_owned())
}

fn put_retries(m: &mut Map<String, Value>, r: Option<Retries>) {
    m.insert("retr".into(), json!(r.is_some()));
    m.insert("cur".into(), json!(r.map_or(0, |r| r.current)));
    m.insert("left".into(), json!(r.map_or(0, |r| r.left)));
}

fn hook_ty(h: HookType) -> &'static str {
    match h {
        HookType::Before => "b",
        HookType::After => "a",
    }
}

fn put_step<W>(
    m: &mut Map<String, Value>,
    bg: bool,
    st: &gherkin::Step,
    ev: &Step<W>,
) {
    let (k, err) = match ev {
        Step::Started => ("StepS", ""),
        Step::Skipped => ("StepSk", ""),
        Step::Passed(..) => ("StepP", ""),
        Step::Failed(_, _, _, e) => (
            "StepF",
            match e {
                StepError::NotFound => "notfound",
                StepError::AmbiguousMatch(_) => "ambig",
                StepError::Panic(_) => "panic",
            },
        ),
    };
    m.insert("k".into(), json!(k));
    m.insert("bg".into(), json!(bg));
    m.insert("step".into(), json!(st.value));
    m.insert("line".into(), json!(st.position.line));
    m.insert("err".into(), json!(err));
    if let Step::Failed(caps, loc, w, e) = ev {
        m.insert("world".into(), json!(w.is_some()));
        m.insert("caps".into(), json!(caps.is_some()));
        m.insert("loc".into(), json!(loc.is_some()));
        match e {
            StepError::Panic(info) => {
                let (ty, text) = payload(info);
                m.insert("pty".into(), json!(ty));
                m.insert("pmsg".into(), json!(pmsg(&text)));
                m.insert("ptext".into(), json!(text));
            }
            StepError::AmbiguousMatch(a) => {
                m.insert(
                    "cands".into(),
                    json!(
                        a.possible_matches
                            .iter()
                            .map(|(re, loc)| format!(
                                "{}@{}",
                                re.as_str(),
                                loc.map_or_else(String::new, |l| l.to_string())
                            ))
                            .collect::<Vec<_>>()
                    ),
                );
            }
            StepError::NotFound => {}
        }
    }
}

fn put_scenario<W>(
    m: &mut Map<String, Value>,
    ev: &cucumber::event::RetryableScenario<W>,
) {
    match &ev.event {
        Scenario::Started => {
            m.insert("k".into(), json!("Started"));
        }
        Scenario::Finished => {
            m.insert("k".into(), json!("Finished"));
        }
        Scenario::Log(msg) => {
            m.insert("k".into(), json!("Log"));
            m.insert("msg".into(), json!(msg));
        }
        Scenario::Hook(h, Hook::Started) => {
            m.insert("k".into(), json!("HookS"));
            m.insert("h".into(), json!(hook_ty(*h)));
        }
        Scenario::Hook(h, Hook::Passed) => {
            m.insert("k".into(), json!("HookP"));
            m.insert("h".into(), json!(hook_ty(*h)));
        }
        Scenario::Hook(h, Hook::Failed(w, info)) => {
            m.insert("k".into(), json!("HookF"));
            m.insert("h".into(), json!(hook_ty(*h)));
            m.insert("world".into(), json!(w.is_some()));
            let (ty, text) = payload(info);
            m.insert("pty".into(), json!(ty));
            m.insert("pmsg".into(), json!(pmsg(&text)));
            m.insert("ptext".into(), json!(text));
        }
        Scenario::Background(st, e) => put_step(m, true, st, e),
        Scenario::Step(st, e) => put_step(m, false, st, e),
    }
    put_retries(m, ev.retries);
}

/// Projects a stream item.
pub fn describe<W>(item: &parser::Result<Event<Cucumber<W>>>) -> Value {
    let mut m = Map::new();
    match item {
        Err(e) => {
            m.insert("t".into(), json!("ParseErr"));
            m.insert("msg".into(), json!(e.to_string()));
        }
        Ok(ev) => match &ev.value {
            Cucumber::Started => {
                m.insert("t".into(), json!("Started"));
            }
            Cucumber::Finished => {
                m.insert("t".into(), json!("Finished"));
            }
            Cucumber::ParsingFinished {
                features,
                rules,
                scenarios,
                steps,
                parser_errors,
            } => {
                m.insert("t".into(), json!("ParsingFinished"));
                m.insert("features".into(), json!(features));
                m.insert("rules".into(), json!(rules));
                m.insert("scenarios".into(), json!(scenarios));
                m.insert("steps".into(), json!(steps));
                m.insert("parser_errors".into(), json!(parser_errors));
            }
            Cucumber::Feature(f, fe) => {
                m.insert("f".into(), json!(f.name));
                match fe {
                    Feature::Started => {
                        m.insert("t".into(), json!("FeatS"));
                    }
                    Feature::Finished => {
                        m.insert("t".into(), json!("FeatF"));
                    }
                    Feature::Scenario(s, se) => {
                        m.insert("t".into(), json!("Sc"));
                        m.insert("r".into(), json!(""));
                        m.insert("s".into(), json!(crate::universe::ident(s)));
                        put_scenario(&mut m, se);
                    }
                    Feature::Rule(r, re) => {
                        m.insert("r".into(), json!(r.name));
                        match re {
                            Rule::Started => {
                                m.insert("t".into(), json!("RuleS"));
                            }
                            Rule::Finished => {
                                m.insert("t".into(), json!("RuleF"));
                            }
                            Rule::Scenario(s, se) => {
                                m.insert("t".into(), json!("Sc"));
                                m.insert("s".into(), json!(crate::universe::ident(s)));
                                put_scenario(&mut m, se);
                            }
                        }
                    }
                }
            }
        },
    }
    Value::Object(m)
}
