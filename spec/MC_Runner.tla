------------------------------ MODULE MC_Runner ------------------------------
(***************************************************************************)
(* Bounded instances of Runner.tla.  Each case is written in the shape of  *)
(* the harness' `expect` record, so the very same monitor judges model     *)
(* behaviours and recorded executions.                                     *)
(***************************************************************************)
EXTENDS Runner

St(owner, n, bg, kind) ==
  [text |-> <<owner, n, kind>>, label |-> <<owner, n>>, bg |-> bg, kind |-> kind]
Sn(f, r, serial, budget, delay, idx, steps) ==
  [f |-> f, r |-> r, serial |-> serial, budget |-> budget, delay_us |-> delay,
   allow_skipped |-> FALSE, idx |-> idx, steps |-> steps]
Ft(nscen, nrules, nsteps, order) ==
  [nscen |-> nscen, nrules |-> nrules, nsteps |-> nsteps, order |-> order]
Case(limit, ff, before, after, feats, rules, scen, parser) ==
  [limit |-> limit, fail_fast |-> ff, before |-> before, after |-> after, twin |-> FALSE,
   feats |-> feats, rules |-> rules, scen |-> scen, parser |-> parser]
PF(f) == [item |-> "feat", f |-> f]
PE == [item |-> "err", f |-> ""]

\* core: two concurrent scenarios, hooks, one step each, a no-match step
CoreScen == [S1 |-> Sn("F1", "", FALSE, -1, 0, 1, <<St("S1", 1, FALSE, "run")>>),
             S2 |-> Sn("F1", "", FALSE, -1, 0, 2, <<St("S2", 1, FALSE, "run"), St("S2", 2, FALSE, "nomatch")>>)]
CaseCore(limit) ==
  Case(limit, FALSE, TRUE, TRUE, [F1 |-> Ft(2, 0, 3, <<"S1", "S2">>)], <<>>, CoreScen, <<PF("F1")>>)

\* retry + serial: a serial scenario with one delayed retry next to a concurrent one,
\* delivered by two features (the second one late)
RetryScen == [S1 |-> Sn("F1", "", TRUE, 1, 1, 1, <<St("S1", 1, FALSE, "run")>>),
              S2 |-> Sn("F1", "", FALSE, 1, 0, 2, <<St("S2", 1, FALSE, "run")>>),
              S3 |-> Sn("F2", "", FALSE, -1, 0, 3, <<St("S3", 1, FALSE, "run")>>)]
CaseRetry(limit) ==
  Case(limit, FALSE, FALSE, FALSE,
       [F1 |-> Ft(2, 0, 2, <<"S1", "S2">>), F2 |-> Ft(1, 0, 1, <<"S3">>)], <<>>, RetryScen,
       <<PF("F1"), PF("F2")>>)

\* fail-fast + parser error + a rule with background, an ambiguous step
FFScen == [S1 |-> Sn("F1", "R1", FALSE, -1, 0, 1, <<St("R1", 1, TRUE, "run"), St("S1", 1, FALSE, "run")>>),
           S2 |-> Sn("F1", "", FALSE, 1, 0, 2, <<St("S2", 1, FALSE, "ambig")>>),
           S3 |-> Sn("F2", "", FALSE, -1, 0, 3, <<St("S3", 1, FALSE, "run")>>)]
CaseFF(limit, ff) ==
  Case(limit, ff, FALSE, TRUE,
       [F1 |-> Ft(2, 1, 2, <<"S2", "S1">>), F2 |-> Ft(1, 0, 1, <<"S3">>)],
       [R1 |-> [f |-> "F1", nscen |-> 1]], FFScen, <<PF("F1"), PE, PF("F2")>>)

Core1 == CaseCore(1)
Core2 == CaseCore(2)
Retry2 == CaseRetry(2)
Retry1 == CaseRetry(1)
FF2 == CaseFF(2, TRUE)
NoFF2 == CaseFF(2, FALSE)

\* tracing: two concurrent scenarios with a before hook and one step each
LogScen == [S1 |-> Sn("F1", "", FALSE, -1, 0, 1, <<St("S1", 1, FALSE, "run")>>),
            S2 |-> Sn("F1", "", FALSE, 1, 0, 2, <<St("S2", 1, FALSE, "run")>>)]
Log2 == Case(2, FALSE, TRUE, TRUE, [F1 |-> Ft(2, 0, 2, <<"S1", "S2">>)], <<>>, LogScen, <<PF("F1")>>)

\* mix: a serial scenario in a rule (with rule background) with one retry, two concurrent ones
\* (one with a no-match step, one ambiguous with a retry) in two features, before and after hooks
MixScen == [S1 |-> Sn("F1", "R1", TRUE, 1, 1, 1, <<St("R1", 1, TRUE, "run"), St("S1", 1, FALSE, "run")>>),
            S2 |-> Sn("F1", "", FALSE, -1, 0, 2, <<St("S2", 1, FALSE, "run"), St("S2", 2, FALSE, "nomatch")>>),
            S3 |-> Sn("F2", "", FALSE, 1, 0, 3, <<St("S3", 1, FALSE, "ambig")>>)]
CaseMix(limit, ff, before, after) ==
  Case(limit, ff, before, after,
       [F1 |-> Ft(2, 1, 4, <<"S2", "S1">>), F2 |-> Ft(1, 0, 1, <<"S3">>)],
       [R1 |-> [f |-> "F1", nscen |-> 1]], MixScen, <<PF("F1"), PF("F2")>>)
Mix2 == CaseMix(2, FALSE, TRUE, TRUE)
Mix2FF == CaseMix(2, TRUE, TRUE, FALSE)
MixU == CaseMix(-1, FALSE, FALSE, TRUE)

\* four concurrent one-step scenarios under limit 2 and 3: slot accounting and work conservation
WideScen == [S1 |-> Sn("F1", "", FALSE, -1, 0, 1, <<St("S1", 1, FALSE, "run")>>),
             S2 |-> Sn("F1", "", FALSE, -1, 0, 2, <<St("S2", 1, FALSE, "run")>>),
             S3 |-> Sn("F1", "", FALSE, 1, 0, 3, <<St("S3", 1, FALSE, "run")>>),
             S4 |-> Sn("F1", "", TRUE, -1, 0, 4, <<St("S4", 1, FALSE, "run")>>)]
CaseWide(limit, ff) ==
  Case(limit, ff, FALSE, FALSE, [F1 |-> Ft(4, 0, 4, <<"S1", "S2", "S3", "S4">>)], <<>>, WideScen, <<PF("F1")>>)
Wide2 == CaseWide(2, FALSE)
Wide3FF == CaseWide(3, TRUE)

VIEW_NoStats ==
  <<pPos, pDone, qS, qC, epc, slots, batch, run, serialStarted, finQ, cntF, cntR, now, nid, nfail,
    logChan, nlogs, [o EXCEPT !.stats = 0, !.ndelivered = 0]>>
=============================================================================
