//! Case descriptions shared by all engines, and their concretisation into real
//! `gherkin` objects (rendered to Gherkin text and parsed by the `gherkin`
//! crate, so positions are real).

use std::path::PathBuf;

use serde::{Deserialize, Serialize};

#[derive(Clone, Debug, Deserialize, Serialize)]
pub struct ScenarioSpec {
    /// Unique id of the scenario (also the prefix of its step texts).
    pub name: String,
    /// Displayed name, if different from the id: several scenarios of one
    /// feature / rule may share it (as the rows of an outline do).  The id
    /// then travels in the tag `id_<name>`.
    #[serde(default)]
    pub display: Option<String>,
    #[serde(default)]
    pub tags: Vec<String>,
    /// Step kinds: `run` | `nomatch` | `ambig`.
    #[serde(default)]
    pub steps: Vec<String>,
}

#[derive(Clone, Debug, Deserialize, Serialize)]
pub struct RuleSpec {
    pub name: String,
    #[serde(default)]
    pub tags: Vec<String>,
    #[serde(default)]
    pub bg: Vec<String>,
    #[serde(default)]
    pub scenarios: Vec<ScenarioSpec>,
}

#[derive(Clone, Debug, Deserialize, Serialize)]
pub struct FeatureSpec {
    pub name: String,
    #[serde(default)]
    pub tags: Vec<String>,
    #[serde(default)]
    pub bg: Vec<String>,
    #[serde(default = "yes")]
    pub path: bool,
    #[serde(default)]
    pub scenarios: Vec<ScenarioSpec>,
    #[serde(default)]
    pub rules: Vec<RuleSpec>,
}

fn yes() -> bool {
    true
}

/// The id of a scenario: its `id_<S>` tag if it carries one, else its name.
pub fn ident(s: &gherkin::Scenario) -> String {
    s.tags
        .iter()
        .find_map(|t| t.strip_prefix("id_"))
        .unwrap_or(&s.name)
        .to_owned()
}

impl ScenarioSpec {
    fn shown(&self) -> &str {
        self.display.as_deref().unwrap_or(&self.name)
    }
}

fn tags_line(indent: &str, tags: &[String]) -> String {
    if tags.is_empty() {
        String::new()
    } else {
        format!(
            "{indent}{}\n",
            tags.iter().map(|t| format!("@{t}")).collect::<Vec<_>>().join(" ")
        )
    }
}

/// Step keyword for step `i` (0-based) of the block owned by `owner`: the
/// first step of a block is Given / When / Then, later ones also And / But,
/// so all three tables of a step collection and keyword inheritance are used.
fn keyword(owner: &str, i: usize) -> &'static str {
    let h = owner.bytes().map(usize::from).sum::<usize>() + i;
    if i == 0 {
        ["Given", "When", "Then"][h % 3]
    } else {
        ["And", "When", "Then", "But", "Given"][h % 5]
    }
}

impl FeatureSpec {
    /// Renders this feature as Gherkin text.
    pub fn render(&self) -> String {
        let mut o = String::new();
        o.push_str(&tags_line("", &self.tags));
        o.push_str(&format!("Feature: {}\n", self.name));
        if !self.bg.is_empty() {
            o.push_str("  Background:\n");
            for (i, k) in self.bg.iter().enumerate() {
                o.push_str(&format!(
                    "    {} {} bg {} {k}\n",
                    keyword(&self.name, i),
                    self.name,
                    i + 1
                ));
            }
        }
        let sc = |o: &mut String, ind: &str, s: &ScenarioSpec| {
            let mut tags = s.tags.clone();
            if s.display.is_some() {
                tags.push(format!("id_{}", s.name));
            }
            o.push_str(&tags_line(ind, &tags));
            o.push_str(&format!("{ind}Scenario: {}\n", s.shown()));
            if s.steps.is_empty() {
                // placeholder, removed again after parsing (an empty scenario
                // confuses the `gherkin` grammar when something follows it)
                o.push_str(&format!("{ind}  Given PLACEHOLDER\n"));
            }
            for (i, k) in s.steps.iter().enumerate() {
                o.push_str(&format!(
                    "{ind}  {} {} step {} {k}\n",
                    keyword(&s.name, i),
                    s.name,
                    i + 1
                ));
            }
        };
        for s in &self.scenarios {
            sc(&mut o, "  ", s);
        }
        for r in &self.rules {
            o.push_str(&tags_line("  ", &r.tags));
            o.push_str(&format!("  Rule: {}\n", r.name));
            if !r.bg.is_empty() {
                o.push_str("    Background:\n");
                for (i, k) in r.bg.iter().enumerate() {
                    o.push_str(&format!(
                        "      {} {} bg {} {k}\n",
                        keyword(&r.name, i),
                        r.name,
                        i + 1
                    ));
                }
            }
            for s in &r.scenarios {
                sc(&mut o, "    ", s);
            }
            if r.scenarios.is_empty() {
                o.push_str("    Scenario: PLACEHOLDER\n      Given PLACEHOLDER\n");
            }
        }
        o
    }

    /// Parses the rendered text with the `gherkin` crate.
    pub fn build(&self) -> gherkin::Feature {
        let text = self.render();
        let mut f =
            gherkin::Feature::parse(&text, gherkin::GherkinEnv::default())
                .unwrap_or_else(|e| {
                    panic!("harness: cannot parse rendered feature: {e}\n{text}")
                });
        let strip = |scs: &mut Vec<gherkin::Scenario>| {
            scs.retain(|s| s.name != "PLACEHOLDER");
            for s in scs {
                s.steps.retain(|st| st.value != "PLACEHOLDER");
            }
        };
        strip(&mut f.scenarios);
        for r in &mut f.rules {
            strip(&mut r.scenarios);
        }
        // The rendered text must parse back to exactly the described
        // structure (guards against quirks of the Gherkin grammar).
        let shape = |scs: &[gherkin::Scenario]| {
            scs.iter()
                .map(|s| (s.name.clone(), s.steps.len()))
                .collect::<Vec<_>>()
        };
        let want = |scs: &[ScenarioSpec]| {
            scs.iter()
                .map(|s| (s.shown().to_owned(), s.steps.len()))
                .collect::<Vec<_>>()
        };
        assert!(
            shape(&f.scenarios) == want(&self.scenarios)
                && f.rules.len() == self.rules.len()
                && f.rules.iter().zip(&self.rules).all(|(a, b)| {
                    a.name == b.name && shape(&a.scenarios) == want(&b.scenarios)
                }),
            "harness: rendered feature does not parse back to its \
             description:\n{text}",
        );
        f.path = self
            .path
            .then(|| PathBuf::from(format!("/features/{}.feature", self.name)));
        f
    }

    pub fn all_scenarios(&self) -> Vec<(Option<&RuleSpec>, &ScenarioSpec)> {
        self.scenarios
            .iter()
            .map(|s| (None, s))
            .chain(
                self.rules
                    .iter()
                    .flat_map(|r| r.scenarios.iter().map(move |s| (Some(r), s))),
            )
            .collect()
    }

    /// Labels and kinds of all steps executed for a scenario, in order.
    pub fn step_list(
        &self,
        rule: Option<&RuleSpec>,
        s: &ScenarioSpec,
    ) -> Vec<(String, bool, String)> {
        let mut v = Vec::new();
        for (i, k) in self.bg.iter().enumerate() {
            v.push((format!("{} bg {}", self.name, i + 1), true, k.clone()));
        }
        if let Some(r) = rule {
            for (i, k) in r.bg.iter().enumerate() {
                v.push((format!("{} bg {}", r.name, i + 1), true, k.clone()));
            }
        }
        for (i, k) in s.steps.iter().enumerate() {
            v.push((format!("{} step {}", s.name, i + 1), false, k.clone()));
        }
        v
    }
}
