"""Independent parsers of the four built-in report formats (C14).

Each returns (facts, info): facts is a list of [kind, scenario, key, status]
  kind "step": key = 1-based index of the step in the scenario's full step list
  kind "hook": key = "b" | "a"   (failed hooks only)
  kind "perr": scenario "", key 0
info carries well-formedness and totals.  Attribution is by tokens: scenario
names are unique tokens S<n>; a step is identified by its text inside the
scenario the report puts it under."""
import json
import re
import xml.etree.ElementTree as ET

SC = re.compile(r"\bS\d+\b")
# failure message tokens the harness puts into panic payloads: P|<scenario>|<attempt>|<kind><hook><index>
MSG = re.compile(r"P\|S\d+\|\d+\|[A-Za-z]+\d*")


def _msg(text):
    """why a step / hook failed, as the report states it: the panic message token, or the kind of
    a failure without payload (ambiguous match, no matching definition)"""
    text = text or ""
    m = MSG.search(text)
    if m:
        return m.group(0)
    if "Step match is ambiguous" in text:
        return "ambiguous"
    if "Step doesn't match any function" in text:
        return "notfound"
    return ""
# decoration appended by the harness to every name / step text of a "decorated" universe
DECORS = [" \"q\" <&> ]]> \u00e9\u4e16 'a' \\n", " \"q\" <&> \u00e9\u4e16 'a' \\n"]
STATUS_MARK = {"✔": "passed", "?": "skipped", "✘": "failed"}


def step_tables(universe):
    """scenario name -> list of step texts (feature bg, rule bg, own)."""
    t = {}
    for f in universe:
        fbg = [f"{f['name']} bg {i+1} {k}" for i, k in enumerate(f["bg"])]
        for s in f["scenarios"]:
            t[s["name"]] = fbg + [f"{s['name']} step {i+1} {k}" for i, k in enumerate(s["steps"])]
        for r in f["rules"]:
            rbg = [f"{r['name']} bg {i+1} {k}" for i, k in enumerate(r["bg"])]
            for s in r["scenarios"]:
                t[s["name"]] = fbg + rbg + [f"{s['name']} step {i+1} {k}" for i, k in enumerate(s["steps"])]
    return t


def _idx(tables, scen, text):
    lst = tables.get(scen, [])
    for d in DECORS:
        if text.endswith(d):
            text = text[:-len(d)]
    text = text.strip()
    for d in DECORS:
        if text.endswith(d.strip()):
            text = text[:-len(d.strip())].strip()
    for i, x in enumerate(lst):
        if x == text:
            return i + 1
    return 0


_STEP_LINE = re.compile(r"^\s*(✔|\?|✘)(>?)\s+(?:Given|When|Then|And|But|\*)\s+(.*?)\s*$")
_HOOK_LINE = re.compile(r"^\s*✘\s+Scenario's (Before|After) hook failed")
_SCEN_LINE = re.compile(r"^\s*Scenario(?: Outline)?: (.*?)(?: \| Retry attempt:? \d+/\d+)?\s*$")


def parse_terminal(text, tables):
    facts = []
    cur = ""
    last_failed = None      # the failed fact whose detail lines are being read
    for line in text.splitlines():
        m = _SCEN_LINE.match(line)
        if m:
            t = SC.search(m.group(1))
            cur = t.group(0) if t else ""
            last_failed = None
            continue
        m = _HOOK_LINE.match(line)
        if m and line.startswith(" "):
            facts.append(["hook", cur, -1 if m.group(1) == "Before" else -2, "failed", ""])
            last_failed = facts[-1]
            continue
        m = _STEP_LINE.match(line)
        if m and line.startswith(" "):
            facts.append(["step", cur, _idx(tables, cur, m.group(3)), STATUS_MARK[m.group(1)], ""])
            last_failed = facts[-1] if facts[-1][3] == "failed" else None
            continue
        if line.startswith("Failed to parse"):
            facts.append(["perr", "", 0, "failed", ""])
            last_failed = None
            continue
        if last_failed is not None and not last_failed[4]:
            last_failed[4] = _msg(line)
    return facts, {"wellformed": True}


def parse_libtest(text, tables):
    facts = []
    info = {"wellformed": True, "unpaired": 0, "n_ok": 0, "n_failed": 0, "n_ignored": 0,
            "suite_started": 0, "suite_result": 0, "suite": {}, "retried_failed_lines": 0,
            "dup_started": 0, "prefix_of": {}}
    open_names = {}
    seen_started = set()
    for line in text.splitlines():
        if not line.strip():
            continue
        try:
            j = json.loads(line)
        except Exception:
            info["wellformed"] = False
            continue
        if j.get("type") == "suite":
            if j.get("event") == "started":
                info["suite_started"] += 1
            else:
                info["suite_result"] += 1
                info["suite"] = {"event": j.get("event"), "passed": j.get("passed", -1),
                                 "failed": j.get("failed", -1), "ignored": j.get("ignored", -1)}
            continue
        name = j.get("name", "")
        ev = j.get("event")
        if ev == "started":
            open_names[name] = open_names.get(name, 0) + 1
            # "exactly one result line with the same name": names of started lines are unique
            if name in seen_started:
                info["dup_started"] += 1
            seen_started.add(name)
            continue
        if open_names.get(name, 0) > 0:
            open_names[name] -= 1
        else:
            info["unpaired"] += 1
        status = {"ok": "passed", "failed": "failed", "ignored": "skipped"}.get(ev, ev)
        info["n_" + {"passed": "ok", "failed": "failed", "skipped": "ignored"}.get(status, "failed")] += 1
        if name.startswith("Feature: Parsing"):
            facts.append(["perr", "", 0, "failed", ""])
            continue
        t = SC.search(name.split("Scenario:")[-1]) if "Scenario:" in name else None
        scen = t.group(0) if t else ""
        last = name.split("::")[-1]
        # "under its feature": the first segment of a libtest name is the feature (name + path, or
        # name + ordinal for a path-less feature)
        if scen:
            info["prefix_of"].setdefault(scen, set()).add(name.split("::")[0])
        m = re.match(r"^(Before|After) hook$", last)
        if m:
            facts.append(["hook", scen, -1 if m.group(1) == "Before" else -2, status,
                          _msg(j.get("stdout", "")) if status == "failed" else ""])
            continue
        rm = re.search(r"Retry attempt (\d+)/(\d+)", name)
        m = re.match(r"^\d+:\s+(?:\S+ )??(?:Given|When|Then|And|But|\*) (.*)$", last)
        text_ = m.group(1) if m else last
        facts.append(["step", scen, _idx(tables, scen, text_), status,
                      _msg(j.get("stdout", "")) if status == "failed" else ""])
    info["unpaired"] += sum(v for v in open_names.values() if v > 0)
    info["prefix_of"] = {k: sorted(v) for k, v in info["prefix_of"].items()}
    return facts, info


def feature_clash(universe, prefix_of):
    """libtest, "under its feature": the scenarios of one feature are listed under one feature
    prefix, and scenarios of different features under different ones.  Returns the number of
    scenarios / pairs of features for which that does not hold."""
    feat_of = {}
    for f in universe:
        for s in f["scenarios"]:
            feat_of[s["name"]] = f["name"]
        for r in f["rules"]:
            for s in r["scenarios"]:
                feat_of[s["name"]] = f["name"]
    bad = 0
    by_feat = {}
    for scen, prefixes in prefix_of.items():
        if scen not in feat_of:
            continue
        if len(prefixes) > 1:
            bad += 1
        by_feat.setdefault(feat_of[scen], set()).update(prefixes)
    feats = sorted(by_feat)
    for i, a in enumerate(feats):
        for b in feats[i + 1:]:
            if len(by_feat[a]) == 1 and len(by_feat[b]) == 1 and by_feat[a] == by_feat[b]:
                bad += 1
            elif len(by_feat[a] | by_feat[b]) < len(by_feat[a]) + len(by_feat[b]):
                bad += 1
    return bad


def parse_json(text, tables):
    facts = []
    info = {"wellformed": True, "feature_objects": 0, "dup_features": 0}
    try:
        doc = json.loads(text) if text.strip() else []
    except Exception:
        return facts, {"wellformed": False, "feature_objects": 0, "dup_features": 0}
    info["feature_objects"] = len(doc)
    # a feature that has a source path (uri) is one object of the document
    uris = [f.get("uri") for f in doc if f.get("uri") and f.get("keyword")]
    info["dup_features"] = len(uris) - len(set(uris))
    st = {"passed": "passed", "skipped": "skipped", "failed": "failed", "undefined": "failed",
          "ambiguous": "failed"}
    for f in doc:
        for el in f.get("elements", []):
            t = SC.search(el.get("name", ""))
            scen = t.group(0) if t else ""
            if not scen:
                # parser-error pseudo features
                for s in el.get("steps", []):
                    facts.append(["perr", "", 0, "failed", ""])
                continue
            for s in el.get("steps", []):
                raw = s["result"]["status"]
                stt = st.get(raw, raw)
                why = ""
                if stt == "failed":
                    # the Cucumber JSON status names the kind of failure
                    why = {"ambiguous": "ambiguous", "undefined": "notfound"}.get(
                        raw, _msg(s["result"].get("error_message", "")))
                    if raw == "failed" and why in ("ambiguous", "notfound"):
                        why = "failed-status-for-" + why
                facts.append(["step", scen, _idx(tables, scen, s.get("name", "")), stt, why])
            for h, key in (("before", -1), ("after", -2)):
                for r in el.get(h, []):
                    if r["result"]["status"] == "failed":
                        facts.append(["hook", scen, key, "failed", _msg(r["result"].get("error_message", ""))])
    return facts, info


def parse_junit(text, tables):
    facts = []
    info = {"wellformed": True, "testcases": 0, "status_mismatch": 0, "totals_mismatch": 0,
            "message_mismatch": 0}
    if not text.strip():
        return facts, info
    try:
        root = ET.fromstring(text)
    except Exception:
        return facts, {"wellformed": False, "testcases": 0, "status_mismatch": 0, "totals_mismatch": 0,
                       "message_mismatch": 0}
    for suite in root.iter("testsuite"):
        # the suite's own totals must agree with its entries
        cases = list(suite.iter("testcase"))
        nfail = sum(1 for c in cases if c.find("failure") is not None)
        nerr = sum(1 for c in cases if c.find("error") is not None)
        try:
            if int(suite.get("tests", "-1")) != len(cases) or int(suite.get("failures", "-1")) != nfail \
                    or int(suite.get("errors", "-1")) != nerr:
                info["totals_mismatch"] += 1
        except ValueError:
            info["totals_mismatch"] += 1
        for case in suite.iter("testcase"):
            info["testcases"] += 1
            if suite.get("name") == "Errors":
                facts.append(["perr", "", 0, "failed", ""])
                continue
            body = ""
            kind = "success"
            for ch in case:
                if ch.tag in ("failure", "error"):
                    kind = "failure"
                    body += ch.text or ""
                elif ch.tag == "skipped":
                    kind = "skipped"
                    body += ch.text or ""
                elif ch.tag == "system-out":
                    body += ch.text or ""
            f, _ = parse_terminal(body, tables)
            facts.extend(f)
            # the `message` of a <failure> states why one of the failed entries of its body failed
            for ch in case:
                if ch.tag in ("failure", "error"):
                    whys = {x[4] for x in f if x[3] == "failed" and x[4]}
                    if whys and _msg(ch.get("message", "")) not in whys:
                        info["message_mismatch"] += 1
            # the testcase status must agree with its own lines
            has_fail = any(x[3] == "failed" for x in f)
            has_skip = any(x[3] == "skipped" for x in f)
            want = "failure" if has_fail else ("skipped" if has_skip else "success")
            if kind == "skipped" and not f:
                want = "skipped"      # a <skipped/> testcase carries no body
            if kind != want:
                info["status_mismatch"] += 1
    return facts, info


PARSERS = {"basic": parse_terminal, "libtest": parse_libtest, "json": parse_json, "junit": parse_junit}
