----------------------------- MODULE Trace_Filter -----------------------------
(***************************************************************************)
(* C15, impl -> spec: what a recording Runner received from the real       *)
(* Cucumber::filter_run (CLI name regex / tag expression parsed from text  *)
(* by TagOperation::from_str / user closure) against Filtered(v).          *)
(***************************************************************************)
EXTENDS Filter, Json, IOUtils
Rec == ndJsonDeserialize(IOEnv.TRACE)
TraceU == Rec[1].universe
VARIABLE l
Init == l = 1
\* JSON turns the sets of a vector into arrays
Vec(r) == [useRe |-> r.vec.useRe, reSet |-> Range(r.vec.reSet), useTags |-> r.vec.useTags,
           expr |-> r.vec.expr, closure |-> Range(r.vec.closure), dup |-> r.vec.dup]
Next ==
  /\ l <= Len(Rec)
  /\ LET r == Rec[l]   e == Filtered(Vec(r)) IN
     PrintT(<<"VERDICT", ToJson([id |-> r.id,
        bad |-> (IF r.received = e THEN {} ELSE {"received-features-differ"})
                \cup (IF Range(r.started) = Accepted(Vec(r)) /\ Len(r.started) = Cardinality(Accepted(Vec(r)))
                      THEN {} ELSE {"started-scenarios-differ-with-hooks-added-after-the-cli-options"})])>>)
  /\ l' = l + 1
Spec == Init /\ [][Next]_l
AllChecked ==
  IF TLCGet("stats").diameter = Len(Rec) + 1 THEN TRUE
  ELSE PrintT(<<"INCOMPLETE", TLCGet("stats").diameter, Len(Rec)>>) /\ FALSE
=============================================================================
