---------------------------- MODULE Gen_StepMatch ----------------------------
(***************************************************************************)
(* C17, spec -> impl: every registration ORDER of every set of up to       *)
(* MaxDefs definitions of the pool (the state is the sequence, so BFS      *)
(* visits each order); each is replayed on a fresh step::Collection and    *)
(* every (keyword, text) is looked up.                                     *)
(***************************************************************************)
EXTENDS StepMatch, Json
CONSTANT MaxDefs
VARIABLE regs
Init == regs = <<>>
Next == /\ Len(regs) < MaxDefs
        /\ \E d \in Pool \ Range(regs) : regs' = Append(regs, d)
Spec == Init /\ [][Next]_regs
RECURSIVE ToSeq(_)
ToSeq(S) == IF S = {} THEN <<>> ELSE LET x == CHOOSE y \in S : TRUE IN <<x>> \o ToSeq(S \ {x})
\* the whole relation, matches and non-matches, for the harness to cross-check
TableSeq == ToSeq({[re |-> r, t |-> t, matches |-> Matches(r, t),
                   groups |-> IF Matches(r, t) THEN Caps[<<r, t>>] ELSE <<>>,
                   whole |-> IF Matches(r, t) THEN Whole(r, t) ELSE ""]
                   : r \in DOMAIN Regexes, t \in DOMAIN Texts})
Dump == PrintT(<<"REPLAY", ToJson([regs |-> regs, regexes |-> Regexes, texts |-> Texts,
                                   table |-> TableSeq])>>)
=============================================================================
