------------------------------ MODULE Summarize ------------------------------
(***************************************************************************)
(* writer::Summarize (src/writer/summarize.rs).                            *)
(*                                                                         *)
(* SumDecl -- PROPERTY layer (C12, and the verdict of C01): the counters   *)
(*   defined declaratively over the stream: step counters are counts of    *)
(*   events; every scenario is classified by its LAST attempt.             *)
(* SumAsIs -- REFERENCE layer: transcription of the indicator machine the  *)
(*   code implements (handle_step / handle_scenario).                      *)
(* Shapes  -- predicates over the stream naming the only families in which *)
(*   the two differ (TLC checks that there are no others): F1, F4a, F4b.   *)
(***************************************************************************)
EXTENDS Univ

---------------------------------------------------------------------------
(* Property layer                                                          *)

NoCur == [s |-> "", retr |-> FALSE, left |-> 0, failedR |-> FALSE, nf |-> FALSE,
          sk |-> FALSE, hookF |-> FALSE, stepEv |-> FALSE, stepF |-> FALSE, lastOwnP |-> FALSE]

DeclInit ==
  [sp |-> 0, ss |-> 0, sf |-> 0, sr |-> 0,          \* steps passed / skipped / failed / retried
   perr |-> 0, herr |-> 0, feats |-> 0, rules |-> 0,
   cp |-> 0, cs |-> 0, cf |-> 0,                    \* scenarios passed / skipped / failed
   retriedScen |-> {},                              \* scenarios with a retried attempt
   cur |-> NoCur, fin |-> FALSE,
   \* shapes of known findings met so far
   f1 |-> FALSE, f4a |-> FALSE, f4b |-> FALSE,
   stepRetried |-> {}]                               \* scenarios with a retried StepF (indicator Retried)


OwnSteps(s) == Len(ScenRec(U, s).spec.steps)

DeclStep(d, e) ==
  IF d.fin THEN d                       \* nothing is counted after run-Finished
  ELSE
  CASE e.t = "ParseErr" -> [d EXCEPT !.perr = @ + 1]
    [] e.t = "FeatS"    -> [d EXCEPT !.feats = @ + 1]
    [] e.t = "RuleS"    -> [d EXCEPT !.rules = @ + 1]
    [] e.t = "Finished" -> [d EXCEPT !.fin = TRUE]
    [] e.t = "Sc" ->
       (CASE e.k = "Started" -> [d EXCEPT !.cur = [NoCur EXCEPT !.s = e.s, !.retr = e.retr, !.left = e.left]]
          [] e.k = "StepP"  -> [d EXCEPT !.sp = @ + 1, !.cur.stepEv = TRUE,
                                         !.cur.lastOwnP = (@ \/ (OwnSteps(e.s) > 0 /\ e.i = Len(StepList(U, e.s))))]
          [] e.k = "StepSk" -> [d EXCEPT !.ss = @ + 1, !.cur.sk = TRUE, !.cur.stepEv = TRUE]
          [] e.k = "StepF"  ->
               IF e.retr /\ e.left > 0 /\ e.err # "notfound"
               THEN [d EXCEPT !.sr = @ + 1, !.cur.failedR = TRUE, !.cur.stepEv = TRUE,
                              !.stepRetried = @ \cup {e.s}]
               ELSE [d EXCEPT !.sf = @ + 1, !.cur.stepEv = TRUE, !.cur.stepF = TRUE,
                              !.cur.failedR = (@ \/ e.err # "notfound"),
                              !.cur.nf = (@ \/ e.err = "notfound")]
          [] e.k = "HookF"  -> [d EXCEPT !.herr = @ + 1, !.cur.failedR = TRUE, !.cur.hookF = TRUE]
          [] e.k = "Finished" ->
               LET c == d.cur
                   willRetry == c.failedR /\ c.retr /\ c.left > 0
                   countsFailed == c.failedR \/ c.nf
               IN IF willRetry
                  THEN [d EXCEPT !.retriedScen = @ \cup {e.s}, !.cur = NoCur,
                                 !.f1 = (@ \/ c.hookF)]
                  ELSE [d EXCEPT !.cur = NoCur,
                                 !.cf = @ + (IF countsFailed THEN 1 ELSE 0),
                                 !.cs = @ + (IF ~countsFailed /\ c.sk THEN 1 ELSE 0),
                                 !.cp = @ + (IF ~countsFailed /\ ~c.sk THEN 1 ELSE 0),
                                 \* F4: the code's `Retried` indicator (set by a retried step failure)
                                 \* survives the last attempt, because that attempt has no Skipped,
                                 \* no Failed step and no Passed last own step to overwrite it:
                                 \* F4a the before hook failed (no step event at all),
                                 \* F4b the scenario has no own steps (background only)
                                 !.f4a = (@ \/ (e.s \in d.stepRetried /\ ~c.sk /\ ~c.stepF /\ ~c.lastOwnP /\ ~c.stepEv)),
                                 !.f4b = (@ \/ (e.s \in d.stepRetried /\ ~c.sk /\ ~c.stepF /\ ~c.lastOwnP /\ c.stepEv))]
          [] OTHER -> d)
    [] OTHER -> d

RECURSIVE DeclRun(_, _)
DeclRun(d, stream) == IF stream = <<>> THEN d ELSE DeclRun(DeclStep(d, Head(stream)), Tail(stream))

\* C01 on a stream: a parser error or an attempt that failed finally
DeclFailed(d) == d.perr > 0 \/ d.cf > 0

\* the counters a Summarize fed with the stream must show (C12)
CountersOK(d, a) ==
  /\ a.passed_steps = d.sp /\ a.skipped_steps = d.ss /\ a.failed_steps = d.sf
  /\ a.retried_steps = d.sr /\ a.parsing_errors = d.perr /\ a.hook_errors = d.herr
ScenariosOK(d, a) ==
  /\ a.sc_passed = d.cp /\ a.sc_skipped = d.cs /\ a.sc_failed = d.cf
  /\ a.sc_retried <= Cardinality(d.retriedScen)
KnownShape(d) == d.f1 \/ d.f4a \/ d.f4b

---------------------------------------------------------------------------
(* Reference layer: the indicator machine                                  *)

AsIsInit ==
  [passed_steps |-> 0, skipped_steps |-> 0, failed_steps |-> 0, retried_steps |-> 0,
   parsing_errors |-> 0, hook_errors |-> 0, features |-> 0, rules |-> 0,
   sc_passed |-> 0, sc_skipped |-> 0, sc_failed |-> 0, sc_retried |-> 0,
   ind |-> [s \in ScenNames(U) |-> "none"], state |-> "InProgress", writes |-> 0]

IsLastOwnStep(e) ==
  LET n == Len(StepList(U, e.s)) IN OwnSteps(e.s) > 0 /\ e.i = n

AsIsStep(m, e) ==
  IF m.state # "InProgress" THEN m
  ELSE
  CASE e.t = "ParseErr" -> [m EXCEPT !.parsing_errors = @ + 1]
    [] e.t = "FeatS"    -> [m EXCEPT !.features = @ + 1]
    [] e.t = "RuleS"    -> [m EXCEPT !.rules = @ + 1]
    [] e.t = "Finished" -> [m EXCEPT !.state = "Finished", !.writes = @ + 1]
    [] e.t = "Sc" ->
       (CASE e.k = "StepP" ->
               [m EXCEPT !.passed_steps = @ + 1,
                         !.ind[e.s] = IF IsLastOwnStep(e) THEN "none" ELSE @]
          [] e.k = "StepSk" ->
               [m EXCEPT !.skipped_steps = @ + 1, !.sc_skipped = @ + 1, !.ind[e.s] = "S"]
          [] e.k = "StepF" ->
               IF e.retr /\ e.left > 0 /\ e.err # "notfound"
               THEN [m EXCEPT !.retried_steps = @ + 1,
                              !.sc_retried = @ + (IF m.ind[e.s] = "none" THEN 1 ELSE 0),
                              !.ind[e.s] = "R"]
               ELSE [m EXCEPT !.failed_steps = @ + 1, !.sc_failed = @ + 1, !.ind[e.s] = "F"]
          [] e.k = "HookF" ->
               (IF m.ind[e.s] \in {"F", "R"} THEN [m EXCEPT !.hook_errors = @ + 1]
                ELSE IF m.ind[e.s] = "S"
                THEN [m EXCEPT !.hook_errors = @ + 1, !.sc_skipped = @ - 1, !.sc_failed = @ + 1]
                ELSE [m EXCEPT !.hook_errors = @ + 1, !.sc_failed = @ + 1, !.ind[e.s] = "F"])
          [] e.k = "Finished" ->
               (IF m.ind[e.s] = "R" THEN m
                ELSE IF m.ind[e.s] = "none" THEN [m EXCEPT !.sc_passed = @ + 1]
                ELSE [m EXCEPT !.ind[e.s] = "none"])
          [] OTHER -> m)
    [] OTHER -> m

RECURSIVE AsIsRun(_, _)
AsIsRun(m, stream) == IF stream = <<>> THEN m ELSE AsIsRun(AsIsStep(m, Head(stream)), Tail(stream))

\* the real counters are exactly what the transcription of today's code predicts
SameAsAsIs(m, a) ==
  /\ a.sc_passed = m.sc_passed /\ a.sc_skipped = m.sc_skipped
  /\ a.sc_failed = m.sc_failed /\ a.sc_retried = m.sc_retried

AsIsFailed(m) == m.failed_steps > 0 \/ m.parsing_errors > 0 \/ m.hook_errors > 0
=============================================================================
