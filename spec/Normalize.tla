------------------------------ MODULE Normalize ------------------------------
(***************************************************************************)
(* writer::Normalize (src/writer/normalize.rs).                            *)
(*                                                                         *)
(* Part 1 -- REFERENCE layer: the three-level insertion-ordered queue as   *)
(*   the code implements it (CucumberQueue -> FeatureQueue -> RulesQueue   *)
(*   -> ScenariosQueue, each with a NotFinished / FinishedButNotEmitted /  *)
(*   FinishedAndEmitted flag).  NHandle(n, e) is one `handle_event` call   *)
(*   and returns the new queue and the events forwarded by that call.      *)
(*                                                                         *)
(* Part 2 -- PROPERTY layer (C11): a monitor over the (input event,        *)
(*   forwarded delta) history which says nothing about queues or FIFO      *)
(*   order.  It is evaluated (a) by TLC on the reference layer for every   *)
(*   contract-abiding stream of small universes (MC_Normalize) and (b) on  *)
(*   histories recorded from the real writer::Normalize (Trace_Normalize). *)
(***************************************************************************)
EXTENDS Events

---------------------------------------------------------------------------
(* Part 1: reference algorithm                                             *)

NInit == [q |-> <<>>, cfin |-> "no", panic |-> FALSE]

NewFeat(f)  == [f |-> f, init |-> TRUE, fin |-> "no", items |-> <<>>]
NewRuleItem(r) ==
  [kind |-> "rule", r |-> r, init |-> TRUE, fin |-> "no", key |-> <<>>,
   evs |-> <<>>, atts |-> <<>>]
NewScItem(key) ==
  [kind |-> "sc", r |-> "", init |-> FALSE, fin |-> "no", key |-> key,
   evs |-> <<>>, atts |-> <<>>]
NewAtt(key) == [key |-> key, evs |-> <<>>]

HasFeat(q, f) == \E i \in DOMAIN q : q[i].f = f
FeatIdx(q, f) == CHOOSE i \in DOMAIN q : q[i].f = f
HasRule(items, r) == \E i \in DOMAIN items : items[i].kind = "rule" /\ items[i].r = r
RuleIdx(items, r) == CHOOSE i \in DOMAIN items : items[i].kind = "rule" /\ items[i].r = r
HasSc(items, key) == \E i \in DOMAIN items : items[i].kind = "sc" /\ items[i].key = key
ScIdx(items, key) == CHOOSE i \in DOMAIN items : items[i].kind = "sc" /\ items[i].key = key
HasAtt(atts, key) == \E i \in DOMAIN atts : atts[i].key = key
AttIdx(atts, key) == CHOOSE i \in DOMAIN atts : atts[i].key = key

\* insert_scenario_event on a FeatureQueue's items
InsertSc(items, e) ==
  LET key == AttKey(e) IN
  IF e.r = ""
  THEN IF HasSc(items, key)
       THEN [items EXCEPT ![ScIdx(items, key)].evs = Append(@, e)]
       ELSE Append(items, [NewScItem(key) EXCEPT !.evs = <<e>>])
  ELSE LET ri == RuleIdx(items, e.r)   atts == items[ri].atts IN
       IF HasAtt(atts, key)
       THEN [items EXCEPT ![ri].atts[AttIdx(atts, key)].evs = Append(@, e)]
       ELSE [items EXCEPT ![ri].atts = Append(@, [NewAtt(key) EXCEPT !.evs = <<e>>])]

\* The queue update part of handle_event; panics ("no `Feature`", "no
\* `Rule`") are modelled by the panic flag.
Enqueue(n, e) ==
  LET q == n.q IN
  CASE e.t = "FeatS" -> [n EXCEPT !.q = Append(q, NewFeat(e.f))]
    [] e.t = "FeatF" ->
         IF HasFeat(q, e.f) THEN [n EXCEPT !.q[FeatIdx(q, e.f)].fin = "pending"]
         ELSE [n EXCEPT !.panic = TRUE]
    [] e.t = "RuleS" ->
         IF HasFeat(q, e.f)
         THEN [n EXCEPT !.q[FeatIdx(q, e.f)].items = Append(@, NewRuleItem(e.r))]
         ELSE [n EXCEPT !.panic = TRUE]
    [] e.t = "RuleF" ->
         IF HasFeat(q, e.f) /\ HasRule(q[FeatIdx(q, e.f)].items, e.r)
         THEN LET fi == FeatIdx(q, e.f) IN
              [n EXCEPT !.q[fi].items[RuleIdx(q[fi].items, e.r)].fin = "pending"]
         ELSE [n EXCEPT !.panic = TRUE]
    [] e.t = "Sc" ->
         IF HasFeat(q, e.f) /\ (e.r = "" \/ HasRule(q[FeatIdx(q, e.f)].items, e.r))
         THEN [n EXCEPT !.q[FeatIdx(q, e.f)].items = InsertSc(@, e)]
         ELSE [n EXCEPT !.panic = TRUE]
    [] e.t = "Finished" -> [n EXCEPT !.cfin = "pending"]
    [] OTHER -> n

\* ScenariosQueue::emit -- pop events until (and including) Finished
RECURSIVE DrainAtt(_)
DrainAtt(evs) ==
  IF evs = <<>> THEN [evs |-> <<>>, out |-> <<>>, finished |-> FALSE]
  ELSE IF IsAttFin(Head(evs))
       THEN [evs |-> Tail(evs), out |-> <<Head(evs)>>, finished |-> TRUE]
       ELSE LET d == DrainAtt(Tail(evs)) IN
            [evs |-> d.evs, out |-> <<Head(evs)>> \o d.out, finished |-> d.finished]

\* RulesQueue::emit inner loop -- head attempt only, continue while finished
RECURSIVE DrainRuleAtts(_)
DrainRuleAtts(atts) ==
  IF atts = <<>> THEN [atts |-> <<>>, out |-> <<>>]
  ELSE LET d == DrainAtt(Head(atts).evs) IN
       IF d.finished
       THEN LET r == DrainRuleAtts(Tail(atts)) IN
            [atts |-> r.atts, out |-> d.out \o r.out]
       ELSE [atts |-> <<[Head(atts) EXCEPT !.evs = d.evs]>> \o Tail(atts),
             out |-> d.out]

DrainRule(f, it) ==
  LET o1  == IF it.init THEN <<EvRuleS(f, it.r)>> ELSE <<>>
      d   == DrainRuleAtts(it.atts)
      it2 == [it EXCEPT !.init = FALSE, !.atts = d.atts]
  IN IF it.fin = "pending"
     THEN [item |-> it2, out |-> o1 \o d.out \o <<EvRuleF(f, it.r)>>, removed |-> TRUE]
     ELSE [item |-> it2, out |-> o1 \o d.out, removed |-> FALSE]

\* FeatureQueue::emit loop -- head item only, continue while removed
RECURSIVE DrainItems(_, _)
DrainItems(f, items) ==
  IF items = <<>> THEN [items |-> <<>>, out |-> <<>>]
  ELSE LET h == Head(items) IN
       IF h.kind = "rule"
       THEN LET d == DrainRule(f, h) IN
            IF d.removed
            THEN LET r == DrainItems(f, Tail(items)) IN
                 [items |-> r.items, out |-> d.out \o r.out]
            ELSE [items |-> <<d.item>> \o Tail(items), out |-> d.out]
       ELSE LET d == DrainAtt(h.evs) IN
            IF d.finished
            THEN LET r == DrainItems(f, Tail(items)) IN
                 [items |-> r.items, out |-> d.out \o r.out]
            ELSE [items |-> <<[h EXCEPT !.evs = d.evs]>> \o Tail(items), out |-> d.out]

\* CucumberQueue::emit loop -- head feature only, continue while removed
RECURSIVE DrainFeats(_)
DrainFeats(q) ==
  IF q = <<>> THEN [q |-> <<>>, out |-> <<>>]
  ELSE LET h  == Head(q)
           o1 == IF h.init THEN <<EvFeatS(h.f)>> ELSE <<>>
           d  == DrainItems(h.f, h.items)
           h2 == [h EXCEPT !.init = FALSE, !.items = d.items]
       IN IF h.fin = "pending"
          THEN LET r == DrainFeats(Tail(q)) IN
               [q |-> r.q, out |-> o1 \o d.out \o <<EvFeatF(h.f)>> \o r.out]
          ELSE [q |-> <<h2>> \o Tail(q), out |-> o1 \o d.out]

\* one handle_event call
NHandle(n, e) ==
  IF n.cfin = "emitted" \/ IsImmediate(e) THEN [n |-> n, out |-> <<e>>]
  ELSE LET n1 == Enqueue(n, e)
           d  == DrainFeats(n1.q)
       IN IF n1.panic THEN [n |-> n1, out |-> <<>>]
          ELSE IF n1.cfin = "pending"
          THEN [n |-> [n1 EXCEPT !.q = d.q, !.cfin = "emitted"],
                out |-> d.out \o <<EvFinished>>]
          ELSE [n |-> [n1 EXCEPT !.q = d.q], out |-> d.out]

---------------------------------------------------------------------------
(* Part 2: property-level monitor (C11)                                    *)

\* Bracket automaton over the OUTPUT: which feature / rule / attempt the
\* output currently has open, and which ones it has already closed.
SeqInit == [F |-> "", R |-> "", A |-> <<>>, cF |-> {}, cR |-> {}, cA |-> {},
            fin |-> FALSE]

SeqOK(st, e) ==
  CASE IsImmediate(e)  -> TRUE
    [] st.fin          -> TRUE       \* after run-Finished: plain pass-through
    [] e.t = "FeatS"   -> st.F = "" /\ e.f \notin st.cF
    [] e.t = "FeatF"   -> st.F = e.f /\ st.R = "" /\ st.A = <<>>
    [] e.t = "RuleS"   -> st.F = e.f /\ st.R = "" /\ st.A = <<>>
                          /\ <<e.f, e.r>> \notin st.cR
    [] e.t = "RuleF"   -> st.F = e.f /\ st.R = e.r /\ st.A = <<>>
    [] e.t = "Sc"      -> st.F = e.f /\ st.R = e.r
                          /\ IF e.k = "Started"
                             THEN st.A = <<>> /\ AttKey(e) \notin st.cA
                             ELSE st.A = AttKey(e)
    [] e.t = "Finished" -> st.F = ""
    [] OTHER -> FALSE

SeqNext(st, e) ==
  CASE IsImmediate(e)  -> st
    [] st.fin          -> st
    [] e.t = "FeatS"   -> [st EXCEPT !.F = e.f]
    [] e.t = "FeatF"   -> [st EXCEPT !.F = "", !.cF = @ \cup {e.f}]
    [] e.t = "RuleS"   -> [st EXCEPT !.R = e.r]
    [] e.t = "RuleF"   -> [st EXCEPT !.R = "", !.cR = @ \cup {<<e.f, e.r>>}]
    [] e.t = "Sc"      -> IF e.k = "Started" THEN [st EXCEPT !.A = AttKey(e)]
                          ELSE IF e.k = "Finished"
                          THEN [st EXCEPT !.A = <<>>, !.cA = @ \cup {AttKey(e)}]
                          ELSE st
    [] e.t = "Finished" -> [st EXCEPT !.fin = TRUE]
    [] OTHER -> st

\* pend: set of [n |-> arrival number, e |-> event] received, not forwarded.
\* b is inside the subtree closed by the closer e
InSubtree(e, b) ==
  CASE e.t = "FeatF"    -> b.f = e.f /\ b.t \in {"RuleS", "RuleF", "Sc"}
    [] e.t = "RuleF"    -> b.f = e.f /\ b.r = e.r /\ b.t = "Sc"
    [] e.t = "Finished" -> ~IsImmediate(b)
    [] OTHER -> FALSE

\* Happened-before is kept: nothing that arrived earlier and must precede p.e
\* is still waiting (earlier event of the same attempt; content of the
\* bracket p.e closes).
OrderOK(pend, p) ==
  \A b \in pend : b.n < p.n =>
      /\ ~(IsSc(p.e) /\ IsSc(b.e) /\ AttKey(b.e) = AttKey(p.e))
      /\ ~InSubtree(p.e, b.e)

Appendable(st, pend, p) == SeqOK(st, p.e) /\ OrderOK(pend, p)

MonInit == [st |-> SeqInit, pend |-> {}, n |-> 0, viol |-> {}]

\* forward one event o of the delta emitted while handling arrival number n
MonOut(m, o) ==
  LET cands == {p \in m.pend : p.e = o} IN
  IF cands = {}
  THEN [m EXCEPT !.viol = @ \cup {<<"not-an-input-or-duplicate", m.n, o>>}]
  ELSE LET p == CHOOSE x \in cands : \A y \in cands : x.n <= y.n
           v1 == IF SeqOK(m.st, o) THEN {} ELSE {<<"not-sequential", m.n, o>>}
           v2 == IF OrderOK(m.pend, p) THEN {} ELSE {<<"order-or-nesting", m.n, o>>}
       IN [m EXCEPT !.st = SeqNext(m.st, o), !.pend = @ \ {p},
                    !.viol = @ \cup v1 \cup v2]

RECURSIVE MonOuts(_, _)
MonOuts(m, delta) ==
  IF delta = <<>> THEN m ELSE MonOuts(MonOut(m, Head(delta)), Tail(delta))

\* one handle_event call observed: input event e, forwarded delta
MonStep(m, e, delta) ==
  LET wasFin == m.st.fin
      m1 == [m EXCEPT !.n = @ + 1, !.pend = @ \cup {[n |-> m.n + 1, e |-> e]}]
      m2 == MonOuts(m1, delta)
      v3 == IF IsImmediate(e) /\ e \notin Range(delta)
            THEN {<<"not-forwarded-at-once", m1.n, e>>} ELSE {}
      v4 == IF wasFin /\ delta # <<e>>
            THEN {<<"no-pass-through-after-finished", m1.n, e>>} ELSE {}
      lag == {p \in m2.pend : Appendable(m2.st, m2.pend, p)}
      v5 == IF ~wasFin /\ lag # {}
            THEN {<<"lag-at-head", m1.n, (CHOOSE p \in lag : TRUE).e>>} ELSE {}
  IN [m2 EXCEPT !.viol = @ \cup v3 \cup v4 \cup v5]

\* at the end of a complete stream (run-Finished received)
MonEnd(m) ==
  [m EXCEPT !.viol = @ \cup
     (IF m.pend # {} THEN {<<"lost-events", m.n, Cardinality(m.pend)>>} ELSE {})
     \cup (IF ~m.st.fin THEN {<<"finished-not-forwarded", m.n, 0>>} ELSE {})]

RECURSIVE MonRun(_, _, _)
\* whole recorded history: inp and outs are sequences of equal length
MonRun(m, inp, outs) ==
  IF inp = <<>> THEN m
  ELSE MonRun(MonStep(m, Head(inp), Head(outs)), Tail(inp), Tail(outs))
=============================================================================
