------------------------------- MODULE SeqGen -------------------------------
(***************************************************************************)
(* Generator of SEQUENTIAL (already normalized) contract-abiding streams   *)
(* with rich attempt shapes: what Summarize, the combinators and the       *)
(* reporters are fed with behind Normalize.                                *)
(*                                                                         *)
(* Features in order; inside a feature its top-level scenarios, then each  *)
(* rule with its scenarios.  Every attempt follows the canonical sequence  *)
(* (C02) with a nondeterministic outcome per hook and step:                *)
(*   Started, [HookS b, HookP b | HookF b], per step StepS then one of     *)
(*   StepP / StepSk / StepF(panic) / StepF(ambig, if Ambig) /              *)
(*   StepF(notfound) -- the last one only                                  *)
(*   if NotFoundToo (a stream seen behind FailOnSkipped) --,               *)
(*   [HookS a, HookP a | HookF a], Finished.                               *)
(* A runner-failed attempt (HookF or StepF other than notfound) with       *)
(* retries left is followed by the next attempt, unless Truncate (a        *)
(* fail-fast run) lets the stream skip the rest.  Parser errors come       *)
(* before run Started or between features.  After run-Finished the stream *)
(* may replay its failure events (what a Repeat wrapper does).             *)
(***************************************************************************)
EXTENDS Univ

CONSTANTS HasBefore, HasAfter, NotFoundToo, MaxErr, Truncate, Replay,
          LazyParse, \* TRUE: the parser may deliver late: ParsingFinished (and parser errors before it)
                     \* may come at any point after run-Started, also in the middle of a feature or attempt
          Ambig, \* TRUE: a step may also fail as ambiguous (several definitions match)
          Logs   \* TRUE: a running step or hook may emit one Scenario::Log event (tracing integration)

VARIABLES gpc,    \* "pre" | "feat" | "att" | "post" | "replay" | "end"
          fi,     \* index of the current feature in U
          plan,   \* remaining items of the current feature: Seq of [k, r, s]
          att,    \* current attempt: [s, cur, pc, i, failedR]
          gerr,   \* parser errors emitted
          fails,  \* failure events emitted so far (for Replay)
          pfin,   \* ParsingFinished was emitted
          ev      \* last emitted event

gvars == <<gpc, fi, plan, att, gerr, fails, pfin, ev>>

BudgetOf(s) ==
  LET tags == InheritedTags(U, s) IN
  IF HasTag(tags, "retry(1)") THEN 1
  ELSE IF HasTag(tags, "retry(2)") THEN 2 ELSE -1
RetrOf(s, cur) == IF BudgetOf(s) < 0 THEN NoRetries ELSE Retries(cur, BudgetOf(s) - cur)

NStep(s) == Len(StepList(U, s))

\* plan of feature number i: its scenarios, then its rules
RECURSIVE RulePlan(_, _)
RulePlan(rules, f) ==
  IF rules = <<>> THEN <<>>
  ELSE LET r == Head(rules) IN
       <<[k |-> "RuleS", r |-> r.name, s |-> ""]>>
       \o [j \in DOMAIN r.scenarios |-> [k |-> "Sc", r |-> r.name, s |-> r.scenarios[j].name]]
       \o <<[k |-> "RuleF", r |-> r.name, s |-> ""]>>
       \o RulePlan(Tail(rules), f)
FeatPlan(i) ==
  [j \in DOMAIN U[i].scenarios |-> [k |-> "Sc", r |-> "", s |-> U[i].scenarios[j].name]]
  \o RulePlan(U[i].rules, U[i].name)

NoAttempt == [s |-> "", cur |-> 0, pc |-> "", i |-> 1, failedR |-> FALSE, lg |-> FALSE]

GInit ==
  /\ gpc = "pre" /\ fi = 0 /\ plan = <<>> /\ att = NoAttempt /\ gerr = 0 /\ fails = <<>>
  /\ pfin = FALSE
  /\ ev = EvStarted

SEv(k, h, i, err) ==
  LET x == ScenRec(U, att.s) IN EvSc(x.f, x.r, att.s, RetrOf(att.s, att.cur), k, h, i, err)

IsFailure(e) == e.t = "ParseErr" \/ (IsSc(e) /\ e.k \in {"StepF", "HookF"})
Emit(e) == /\ ev' = e
           /\ fails' = IF IsFailure(e) THEN Append(fails, e) ELSE fails

\* parser error / ParsingFinished / run Started, before any feature
GPre ==
  /\ gpc = "pre"
  /\ \/ /\ gerr < MaxErr /\ gerr' = gerr + 1 /\ Emit(EvParseErr(gerr + 1))
        /\ UNCHANGED <<gpc, fi, plan, att, pfin>>
     \/ /\ gpc' = "pre2" /\ Emit(EvParsingFinished) /\ pfin' = TRUE /\ UNCHANGED <<fi, plan, att, gerr>>
     \* a lazy parser: the run starts before parsing is over
     \/ /\ LazyParse /\ gpc' = "feat" /\ Emit(EvStarted) /\ UNCHANGED <<fi, plan, att, gerr, pfin>>
GPre2 ==
  /\ gpc = "pre2" /\ gpc' = "feat" /\ Emit(EvStarted) /\ UNCHANGED <<fi, plan, att, gerr, pfin>>

\* late parser items (Normalize forwards them at once, wherever the output stands)
GLate ==
  /\ LazyParse /\ ~pfin /\ gpc \in {"feat", "att"}
  /\ \/ /\ gerr < MaxErr /\ gerr' = gerr + 1 /\ Emit(EvParseErr(gerr + 1)) /\ UNCHANGED pfin
     \/ /\ pfin' = TRUE /\ Emit(EvParsingFinished) /\ UNCHANGED gerr
  /\ UNCHANGED <<gpc, fi, plan, att>>

\* between features: open the next one (empty ones are skipped) or finish
GFeat ==
  /\ gpc = "feat" /\ plan = <<>>
  /\ IF fi < Len(U)
     THEN LET i == fi + 1 IN
          /\ fi' = i
          /\ IF ScenOfFeat(U, U[i].name) = {}
             THEN UNCHANGED <<gpc, plan, att, gerr, fails, ev>>     \* nothing to run: no bracket
             ELSE /\ plan' = FeatPlan(i) \o <<[k |-> "FeatF", r |-> "", s |-> ""]>>
                  /\ Emit(EvFeatS(U[i].name))
                  /\ UNCHANGED <<gpc, att, gerr>>
     ELSE /\ pfin /\ gpc' = "post" /\ Emit(EvFinished) /\ UNCHANGED <<fi, plan, att, gerr>>

\* consume the next plan item of the open feature
GItem ==
  /\ gpc = "feat" /\ plan # <<>>
  /\ LET it == Head(plan)   f == U[fi].name IN
     CASE it.k = "FeatF" -> /\ plan' = Tail(plan) /\ Emit(EvFeatF(f)) /\ UNCHANGED <<gpc, fi, att, gerr>>
       [] it.k = "RuleS" ->
            \* a rule with nothing to run gets no bracket
            IF ScenOfRule(U, f, it.r) = {}
            THEN /\ plan' = Tail(Tail(plan)) /\ UNCHANGED <<gpc, fi, att, gerr, fails, ev>>
            ELSE /\ plan' = Tail(plan) /\ Emit(EvRuleS(f, it.r)) /\ UNCHANGED <<gpc, fi, att, gerr>>
       [] it.k = "RuleF" -> /\ plan' = Tail(plan) /\ Emit(EvRuleF(f, it.r)) /\ UNCHANGED <<gpc, fi, att, gerr>>
       [] it.k = "Sc" ->
            /\ plan' = Tail(plan) /\ gpc' = "att"
            /\ att' = [s |-> it.s, cur |-> 0, pc |-> "S", i |-> 1, failedR |-> FALSE, lg |-> FALSE]
            /\ ev' = EvSc(f, it.r, it.s, RetrOf(it.s, 0), "Started", "", 0, "")
            /\ UNCHANGED <<fi, gerr, fails>>
  \* fail-fast truncation: drop the remaining scenarios of this feature
  \/ /\ Truncate /\ gpc = "feat" /\ plan # <<>> /\ Head(plan).k = "Sc"
     /\ plan' = Tail(plan) /\ UNCHANGED <<gpc, fi, att, gerr, fails, ev>>

\* one event of the current attempt
GAtt ==
  /\ gpc = "att"
  /\ LET n == NStep(att.s)
         stepsPc == IF n = 0 THEN "post" ELSE "steps"
         pcNow == IF att.pc = "S" /\ ~HasBefore THEN stepsPc ELSE att.pc
         stay(pc2, i2, fr) == /\ att' = [att EXCEPT !.pc = pc2, !.i = i2, !.failedR = fr, !.lg = FALSE]
                              /\ UNCHANGED <<gpc, fi, plan, gerr>>
         \* one log event while the hook / step runs (at most one per callback)
         logNow == /\ Logs /\ ~att.lg /\ Emit(SEv("Log", "", att.i, ""))
                   /\ att' = [att EXCEPT !.lg = TRUE] /\ UNCHANGED <<gpc, fi, plan, gerr>>
     IN
     CASE att.pc = "S" /\ HasBefore -> Emit(SEv("HookS", "b", 0, "")) /\ stay("Hb", 1, FALSE)
       [] pcNow = "Hb" ->
            \/ Emit(SEv("HookP", "b", 0, "")) /\ stay(stepsPc, 1, FALSE)
            \/ Emit(SEv("HookF", "b", 0, "")) /\ stay("post", 1, TRUE)
            \/ logNow
       [] pcNow = "steps" -> Emit(SEv("StepS", "", att.i, "")) /\ stay("Sr", att.i, att.failedR)
       [] pcNow = "Sr" ->
            \/ Emit(SEv("StepP", "", att.i, ""))
               /\ stay(IF att.i + 1 > n THEN "post" ELSE "steps", att.i + 1, att.failedR)
            \/ Emit(SEv("StepSk", "", att.i, "")) /\ stay("post", att.i, att.failedR)
            \/ Emit(SEv("StepF", "", att.i, "panic")) /\ stay("post", att.i, TRUE)
            \/ NotFoundToo /\ Emit(SEv("StepF", "", att.i, "notfound")) /\ stay("post", att.i, att.failedR)
            \/ Ambig /\ Emit(SEv("StepF", "", att.i, "ambig")) /\ stay("post", att.i, TRUE)
            \/ logNow
       [] pcNow = "post" /\ HasAfter -> Emit(SEv("HookS", "a", 0, "")) /\ stay("Ha", att.i, att.failedR)
       [] pcNow = "Ha" ->
            \/ Emit(SEv("HookP", "a", 0, "")) /\ stay("fin", att.i, att.failedR)
            \/ Emit(SEv("HookF", "a", 0, "")) /\ stay("fin", att.i, TRUE)
            \/ logNow
       [] (pcNow = "post" /\ ~HasAfter) \/ pcNow = "fin" ->
            LET rt == RetrOf(att.s, att.cur)
                retry == att.failedR /\ rt.retr /\ rt.left > 0
            IN /\ Emit(SEv("Finished", "", 0, ""))
               /\ UNCHANGED <<fi, plan, gerr>>
               /\ \/ /\ retry /\ gpc' = "att"       \* next attempt follows at once (sequential)
                     /\ att' = [s |-> att.s, cur |-> att.cur + 1, pc |-> "S0", i |-> 1, failedR |-> FALSE, lg |-> FALSE]
                  \/ /\ (~retry \/ Truncate) /\ gpc' = "feat" /\ att' = NoAttempt
       [] pcNow = "S0" ->       \* Started of a retry attempt
            /\ ev' = SEv("Started", "", 0, "") /\ UNCHANGED <<fi, plan, gerr, fails, gpc>>
            /\ att' = [att EXCEPT !.pc = "S"]

\* after run-Finished: replay the failure events, in order (Repeat::failed)
GReplay ==
  /\ gpc \in {"post", "replay"}
  /\ IF Replay /\ fails # <<>>
     THEN /\ gpc' = "replay" /\ ev' = Head(fails) /\ fails' = Tail(fails)
          /\ UNCHANGED <<fi, plan, att, gerr>>
     ELSE \* a Repeat whose filter also matches run-Finished re-emits it last
          \/ /\ gpc = "replay" /\ gpc' = "end" /\ ev' = EvFinished
             /\ UNCHANGED <<fi, plan, att, gerr, fails>>
          \/ /\ gpc' = "end" /\ UNCHANGED <<fi, plan, att, gerr, fails, ev>>

\* every disjunct except the last one emits ev'
GNext == (GPre \/ GPre2 \/ GLate)
         \/ ((GFeat \/ GItem \/ GAtt \/ GReplay) /\ UNCHANGED pfin)
GDone == gpc = "end"
\* did the last step emit an event?  (consecutive events are never equal)
GEmitted == ev' # ev
=============================================================================
