#!/usr/bin/env python3
"""Regenerates /verif/MANIFEST.json from the table below."""
import json
import os

VERIF = os.path.dirname(os.path.dirname(os.path.abspath(__file__)))
ALL = [f"C{i:02d}" for i in range(1, 21)]

CHECKS = {
    "C11": dict(
        engine="writers-replay",
        technique="TLA+ model (Contract.tla + Normalize.tla) checked by TLC; TLC-generated contract "
                  "streams replayed into the real writer::Normalize; recorded (input, forwarded) "
                  "histories validated by TLC against the property monitor (Trace_Normalize.tla)",
        level="model_checking",
        text="TLC proves, for every contract-abiding linearization of small universes, that the "
             "reference queue algorithm satisfies a property-level monitor (sequential, lossless, "
             "order-preserving, immediate events, no lag at the head, pass-through); the same "
             "monitor then judges histories recorded from the real Normalize on TLC-generated "
             "streams, so a code change that breaks the statement is rejected even if it keeps "
             "some other queue discipline.",
        design_ref="DESIGN.md §3 C11",
        note="bounded universes (<= 3 features / 3 scenarios / 1 retry); simulation-mode sampling "
             "for replay; harness projection trusted",
    ),
}


CHECKS["C12"] = dict(
    engine="writers-replay",
    technique="TLA+ declarative counters (Summarize.tla SumDecl) vs transcription of the code's indicator machine, "
              "model-checked by TLC over all sequential streams of small universes (MC_Summarize); TLC-generated "
              "streams replayed into the real writer::Summarize; its counters, scenario statistics and write log "
              "validated by TLC against the declarative counters (Trace_Summarize.tla)",
    level="model_checking",
    text="TLC shows that the code's indicator machine agrees with the declarative, last-attempt-based counters on "
         "every sequential stream of the bounded universes except in three named shapes (F1, F4a, F4b: recorded "
         "known findings); the real Summarize is then fed TLC-generated streams (with replays after Finished) and "
         "every getter, the scenario statistics, every number printed in the summary text and the position of the "
         "single summary write are judged by the same declarative definition (streams with log events, ambiguous "
         "failures, a lazily delivering parser, repeated step texts, a replayed run-Finished).",
    design_ref="DESIGN.md §3 C12",
    note="bounded universes; simulation-mode sampling for replay; features/rules counters read from the summary text",
)
CHECKS["C13"] = dict(
    engine="writers-replay",
    technique="TLA+ stream-transformer model of FailOnSkipped/Repeat/Tee/Or/discard (Combinators.tla); TLC enumerates "
              "all input sequences up to a bound over an event alphabet; each is replayed into every nesting of the "
              "real combinators; what the recording leaves received and the combined Stats are validated by TLC "
              "(Trace_Combinators.tla)",
    level="model_checking",
    text="The wrappers are stateless per event, so inputs are ALL sequences (not only contract-abiding ones) up to "
         "length 2 plus all triples with one run-Finished (quick) / all up to length 3 (thorough) over a 25-symbol alphabet "
         "(background and own steps, top-level and rule scenarios, retried and final failures, hooks, parser errors, "
         "arbitrary writes, run-Finished), plus sampled longer ones and the full placement matrix of @allow.skipped on "
         "feature / rule / scenario; twelve nestings of the real combinators (Tee in both orientations) are compared "
         "leaf by leaf and getter by getter with the TLA+ model.",
    design_ref="DESIGN.md §3 C13",
    note="alphabet-bounded inputs; nestings limited to those that type-check; leaf writer counts its own Stats",
)

PURE_TECH = ("the function is transcribed into TLA+ ({spec}); TLC enumerates the input vectors (all initial states of "
             "{gen}); the harness evaluates the real code on each; TLC compares every result with the TLA+ function "
             "({trace})")
PURE = {
    "C15": ("Filter.tla", "Gen_Filter.tla", "Trace_Filter.tla",
            "TLC checks the boolean laws of tag-expression evaluation over all expressions of depth <= 2 and enumerates "
            "filter vectors (every such expression as --tags; all presence combinations of name regex / tags / closure); "
            "each vector runs the real Cucumber::filter_run with a recording Runner, the expression going through "
            "TagOperation::from_str, and what the runner received is compared with the model.",
            "one 7-scenario universe with tags on all three levels (one scenario without any inherited tag); regexes realised as "
            "alternations of names that also name a feature and a rule; with and without scenarios sharing a displayed name; "
            "every vector also through runner::Basic with hooks added after the CLI options"),
    "C16": ("Outline.tla", "Gen_Outline.tla", "Trace_Outline.tla",
            "outline vectors (placeholder shapes x value classes x table layouts, doc strings, step tables, tagged tables, "
            "rule outlines, unknown placeholders) are rendered to Gherkin, parsed and expanded by the crate (directly and "
            "through parser::Basic on a file); names, step texts, doc strings, cells, tags, order, error naming and "
            "position distinctness are compared with the TLA+ expansion.",
            "texts are split back into pieces at U+241F separators; Gherkin backslash escapes excluded"),
    "C17": ("StepMatch.tla", "Gen_StepMatch.tla", "Trace_StepMatch.tla",
            "the model holds definitions as a SET; TLC's BFS over registration sequences yields every registration order of "
            "every set (<= 3 quick / <= 4 thorough of an 11-definition pool incl. an unanchored regex); each order is registered on a fresh real "
            "Collection and all 27 (keyword, text) lookups are compared with the order-free model, ambiguity candidate "
            "sequences being required to be identical across orders of the same set.",
            "match/capture table cross-checked against the regex crate each run; distinct (keyword, regex, location) keys only"),
    "C18": ("RetryOpts.tla", "Gen_RetryOpts.tla", "Trace_RetryOpts.tla",
            "the full product of tag forms on scenario/rule/feature x CLI x builder counts and delays, the tag-filter "
            "combinations and the concurrency / fail-fast merges (about 16 000 vectors: eight tag shapes incl. composite and zero "
            "durations, CLI concurrency below and above the builder value) each drive one real Runner::run; the merged "
            "CLI seen by the retry_options function, parse_from_tags' result, the Retries on the Started event and the "
            "hooked limit / fail-fast flag are compared with the TLA+ resolution.",
            "only the four tag forms the statement names; concurrency/fail-fast observed through the verif hook record; the C18 "
            "rules of the monitor hit in the driven and tracing runs are reported by this check too"),
}
for _pid, (_spec, _gen, _trace, _txt, _note) in PURE.items():
    CHECKS[_pid] = dict(engine="pure-replay", technique=PURE_TECH.format(spec=_spec, gen=_gen, trace=_trace),
                        level="model_checking", text=_txt, design_ref=f"DESIGN.md §3 {_pid}", note=_note)

CHECKS["C14"] = dict(
    engine="writers-replay",
    technique="TLA+ definition of the facts of a stream (Reporters.tla) over TLC-generated sequential streams (SeqGen.tla); "
              "each stream is replayed into the real terminal / libtest / Cucumber-JSON / JUnit writers (behind Normalize); "
              "their output is parsed back by independent parsers and the parsed facts, pairing and totals are validated "
              "by TLC (Trace_Reporters.tla)",
    level="model_checking",
    text="for every sampled sequential stream (retries, hook failures, skipped / failed / not-found steps, parser errors, "
         "truncated fail-fast streams, features with and without a source path, reporter options) the bag of "
         "(scenario, step | hook | parser error, status) facts parsed back from each of the four reports must equal the "
         "bag defined by the stream, each failed fact with WHY it failed (the panic message, ambiguous match, no matching "
         "definition); documents must be well-formed, a feature with a source path is one object of the JSON document, "
         "the message attribute of a JUnit failure states a failure of its body, every libtest started line must have exactly one "
         "result of the same name, every feature has one libtest feature prefix of its own (also path-less same-named features with ParsingFinished arriving late), suite totals and verdict must agree with the entries, JUnit testcase status with its "
         "lines.  Known findings: F5 (libtest names of path-less features), F8 (JUnit lists no steps of a skipped testcase).",
    design_ref="DESIGN.md §3 C14",
    note="facts carry no attempt number (bag semantics); plain-token names in this round; parsers trusted; simulation sampling",
)

CHECKS["C19"] = dict(
    engine="pure-replay",
    technique="TLA+ description of a compiled zoo of #[given]/#[when]/#[then] functions (Codegen.tla: descriptors, match "
              "relation, Dispatch) sanity-checked by TLC; every (keyword, text) query is dispatched through the real "
              "World::collection() and executed; TLC compares the outcomes (Trace_Codegen.tla)",
    level="exploration",
    text="C19 quantifies over programs; a finite zoo (sync/async, unit/Result, typed args with parse failures, slice, "
         "#[step], literal / regex / Cucumber-expression matchers incl. anonymous parameter, alternative text and escaped "
         "parentheses, a custom Parameter, two attributes on one fn, the same literal under two keywords, optional and empty "
         "capture groups in a slice, a Result behind a type alias; 27 functions) is compiled into the harness; about 200 (keyword, text) queries "
         "including near-miss literals and wrong keywords are dispatched and the result (not found / invoked with which "
         "arguments / failed) compared with the TLA+ description.",
    design_ref="DESIGN.md §3 C19",
    note="finite zoo only; the match column of Codegen.tla is hand-derived attribute semantics; compile-fail cases out of scope",
)

RUNNER_TECH = ("TLA+ model of the executor design (Runner.tla) model-checked by TLC against the property "
               "monitor RunnerObs.tla; the real runner::Basic driven through a gate-controlled test double; "
               "its hooked linearization points validated by TLC against the same monitor (Trace_Runner.tla)")
RUNNER_NOTE = ("bounded model constants; seeded schedules sample the interleavings of the real code; hooks "
               "(cfg cucumber_verif) and the harness test double are trusted")
RUNNER_TEXT = {
    "C01": "TLC checks the design's event streams against the FinalFailure rule; on the code every driven run's real stream is fed through the built-in stats pipelines (Summarize<Normalize>, Libtest, Tee, Or, +-FailOnSkipped/Repeat) and each verdict is compared by the TLA+ monitor with the final-failure predicate evaluated on the recorded stream; every pipeline is driven by the real Cucumber::run event loop and a second instance by run_and_exit, whose panic / no panic must equal the statistics verdict.",
    "C02": "the monitor holds a per-attempt automaton (Started, before hook, steps in declaration order with exactly one result, deferred failure, after hook, Finished, constant retry counter) and checks every result event against what the user callback really did; TLC checks it on all interleavings of the model and on every record of the driven runs.",
    "C03": "bracket rules (run/feature/rule Started/Finished exactly once, nesting, none for empty ones, ParsingFinished counts, parser errors in order, Finished last then end of stream) are monitor rules evaluated on every model state and every recorded run, with lazy parsers, errors, retries and fail-fast.",
    "C04": "safety (exactly the supplied scenarios are attempted) is a monitor rule at stream end; termination is proved on the model as <>Done under fairness (TLC finds the pre-fix idle-spin lasso when the switch is off) and observed on the code as stream end within a watchdog under lazy-parser schedules.",
    "C05": "attempt numbering, left = N - k, retry exactly on failure within budget, no overlap, fresh World per attempt and the one-sided delay bound (Started(k+1) - Finished(k) >= delay, same monotonic clock) are monitor rules on model and code.",
    "C06": "in-flight count <= limit at every Started, slot accounting (slots + running = limit), batch <= free slots, and work conservation at every Features::get (nothing ready is left behind while slots are free; the executor never parks after a completion without looking at the queue) - checked on all model interleavings and on the recorded get/dispatch/completed records; a TLAPS proof (spec/proof/SlotsInd.tla) shows that the local slot rules imply running <= limit for every limit and run length.",
    "C07": "no attempt or foreign user callback overlaps a serial attempt (event level and callback level), and a serial entry is dispatched only when nothing runs / nothing is dispatched while it runs (dispatch level); TLC rediscovers the pre-fix overlap when the SerialExclusive switch is off.",
    "C08": "after the first final failure no batch is dispatched, only attempts dispatched before it may still begin (fewer than the limit), all brackets close, no ingestion after a parser error; failure-free fail-fast runs are compared scenario by scenario with their twin run without fail-fast.",
    "C09": "the monitor tracks World ids and mutation counters through the callback records of the test double: before hook first on a fresh World, same World with all earlier mutations in every step, after hook exactly once with the true reason and World presence, at most one World per attempt and only when needed, no World shared.",
    "C10": "scripted panics (String, &str, custom payload) and World errors at every callback position: payload of the Failed event equals what was thrown, the attempt still gets its after hook and Finished, the run ends, a sentinel process panic hook is never invoked during the run and is in place again afterwards.",
}
for _pid, _txt in RUNNER_TEXT.items():
    CHECKS[_pid] = dict(engine="runner-trace", technique=RUNNER_TECH, level="model_checking",
                        text=_txt, design_ref=f"DESIGN.md §3 {_pid}", note=RUNNER_NOTE)

CHECKS["C20"] = dict(
    engine="runner-trace",
    technique="Runner.tla extended with the tracing forwarder (log channel flushed at every executor poll), model-checked "
              "by TLC against the C20 rules of the monitor RunnerObs.tla; real runs with Cucumber::init_tracing (one "
              "process each, gate-controlled completion order) validated by TLC against the same monitor (Trace_Runner.tla)",
    level="model_checking",
    text="every log emitted by the test double's steps and hooks carries (scenario, attempt, callback, index); the "
         "monitor requires each to be delivered exactly once, as a Log event of that attempt, after the Started event of "
         "the emitting step/hook and before its result, none pending at run-Finished; checked on all interleavings of "
         "two concurrent scenarios in the model and on driven real runs with up to several scenarios, retries and "
         "0-5 logs per callback.  After-hook logs violate the position rule by design of the runner (known finding F7).",
    design_ref="DESIGN.md §3 C20",
    note="model abstracts the collector to 'flushed at every poll'; global subscriber => one run per process",
)

NOT_YET = "check not built yet in this round (planned: see DESIGN.md §3)"


def main():
    checks = []
    for pid in ALL:
        if pid not in CHECKS:
            continue
        c = CHECKS[pid]
        checks.append({
            "property_id": pid,
            "quick_cmd": f"./check {pid} --tier quick",
            "thorough_cmd": f"./check {pid} --tier thorough",
            "evidence_file": f"/verif/evidence/{pid}.json",
            "replay_cmd_template": f"./check {pid} --replay {{path}}",
            "engine": c["engine"],
            "level_claimed": {"category": c["level"], "text": c["text"],
                              "design_ref": c["design_ref"]},
            "level_note": c["note"],
            "technique": c["technique"],
        })
    m = {
        "version": 1,
        "setup_cmd": "cd /verif/harness && cargo build --offline 2>&1 | tail -3 && cd /verif && ./check setup",
        "hooks": {
            "guard": "cucumber_verif",
            "enable": "RUSTFLAGS='--cfg cucumber_verif' via /verif/harness/.cargo/config.toml "
                      "(the harness has a path dependency on /repo and is rebuilt by every check)",
            "baseline_off_cmd": "cd /repo && cargo test --workspace --no-fail-fast --offline",
            "source_commits": ["8cd4e4c", "fe89a36", "41a32ac", "e20061a", "3919070"],
            "add_only": True,
        },
        "engines": [
            {"name": "runner-trace", "path": "lib/engine_runner.py",
             "serves_properties": ["C01", "C02", "C03", "C04", "C05", "C06", "C07", "C08", "C09", "C10"],
             "kind_free_text": "TLC model checking of Runner.tla against the monitor RunnerObs.tla + driven runs "
                               "of the real runner validated by TLC (Trace_Runner.tla)"},
            {"name": "pure-replay", "path": "lib/engine_pure.py",
             "serves_properties": ["C15", "C16", "C17", "C18"],
             "kind_free_text": "TLC-enumerated vectors of transcribed functions evaluated on the real code and compared by TLC"},
            {"name": "writers-replay", "path": "lib/engine_writers.py",
             "serves_properties": ["C01", "C11", "C12", "C13", "C14"],
             "kind_free_text": "TLC model checking + TLC-generated streams replayed into the real "
                               "writers + TLC validation of the recorded histories"},
        ],
        "checks": checks,
        "not_applicable": [{"property_id": p, "reason": NOT_YET} for p in ALL if p not in CHECKS],
        "notes": "All checks: exit 0 held / 1 VIOLATION line / 2 tool error. "
                 "Known findings: /verif/known_findings.json.",
    }
    json.dump(m, open(os.path.join(VERIF, "MANIFEST.json"), "w"), indent=1)


if __name__ == "__main__":
    main()
