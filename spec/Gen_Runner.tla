------------------------------ MODULE Gen_Runner ------------------------------
(***************************************************************************)
(* Spec -> impl direction for the runner: behaviours of Runner.tla         *)
(* (sampled with -simulate) are dumped as SCHEDULES -- the external        *)
(* choices of the behaviour: which user callback completes next and with   *)
(* which outcome, when the parser delivers, when time passes.  The harness *)
(* follows the schedule on the real runner::Basic for the same case and    *)
(* the resulting trace goes back through Trace_Runner.                     *)
(***************************************************************************)
EXTENDS Runner, Json

VARIABLE sched
gvars == <<vars, sched>>

\* the external choice made by a step, read off the state change
Delta ==
  LET stepped == {id \in DOMAIN run : id \in DOMAIN run' /\ run'[id] # run[id] /\ run[id].pc \in ChoicePc} IN
  IF stepped # {}
  THEN LET id == CHOOSE x \in stepped : TRUE   a == run[id]
           st == IF a.i <= Len(Cfg.scen[a.s].steps) THEN Cfg.scen[a.s].steps[a.i]
                 ELSE [label |-> "", text |-> "", bg |-> FALSE, kind |-> ""]
       IN <<[k |-> "gate", s |-> a.s, cur |-> a.cur, pc |-> a.pc, label |-> st.label,
             fails |-> nfail' > nfail]>>
  ELSE IF pPos' > pPos /\ pPos <= Len(Cfg.parser) /\ Cfg.parser[pPos].item = "feat"
       THEN <<[k |-> "parser", s |-> "", cur |-> pPos - 1, pc |-> "", label |-> "", fails |-> FALSE]>>
  ELSE IF now' > now
       THEN <<[k |-> "tick", s |-> "", cur |-> 0, pc |-> "", label |-> "", fails |-> FALSE]>>
  ELSE <<>>

GInit == Init /\ sched = <<>>
GNext == /\ Next /\ epc # "done"
         /\ sched' = sched \o Delta
GSpec == GInit /\ [][GNext]_gvars

Dump == epc = "done" => PrintT(<<"REPLAY", ToJson([sched |-> sched, viol |-> o.viol])>>)
=============================================================================
