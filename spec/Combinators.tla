----------------------------- MODULE Combinators -----------------------------
(***************************************************************************)
(* The writer combinators as stream transformers (C13):                    *)
(*   writer::FailOnSkipped, writer::Repeat, writer::Tee, writer::Or and    *)
(*   the discard adapters.  An input is a sequence of events and of the    *)
(*   pseudo event Write (an `Arbitrary::write` call).  These wrappers are  *)
(*   stateless per event, so inputs need not obey the Runner contract.     *)
(*                                                                         *)
(* Nest(name, inp) gives, for every nesting the harness builds, the        *)
(* sequence each recording leaf writer must have received.                 *)
(***************************************************************************)
EXTENDS Univ

EvWrite == Ev("Write", "", "", "", "", "", 0, "", 0, 0, FALSE)
IsWrite(e) == e.t = "Write"

\* ---- FailOnSkipped -----------------------------------------------------
AllowSkipped(s) == HasTag(InheritedTags(U, s), "allow.skipped")
\* default predicate: fail unless tagged @allow.skipped on scenario, rule or feature
ShouldFailDefault(e) == ~AllowSkipped(e.s)
\* the custom predicate used by the harness: only scenario S1 is failed
ShouldFailCustom(e) == e.s = "S1"

FoS1(e, ShouldFail(_)) ==
  IF IsSc(e) /\ e.k = "StepSk" /\ ShouldFail(e)
  THEN [e EXCEPT !.k = "StepF", !.err = "notfound"] ELSE e
FoS(inp, ShouldFail(_)) == [i \in DOMAIN inp |-> FoS1(inp[i], ShouldFail)]

\* ---- Repeat ------------------------------------------------------------
FilterSkipped(e) == IsSc(e) /\ e.k = "StepSk"
FilterFailed(e) == e.t = "ParseErr" \/ (IsSc(e) /\ e.k \in {"StepF", "HookF"})
\* custom filter used by the harness: feature/rule Started events
FilterCustom(e) == e.t \in {"FeatS", "RuleS"}

Matches(fname, e) ==
  CASE fname = "skipped" -> FilterSkipped(e)
    [] fname = "failed"  -> FilterFailed(e)
    [] fname = "custom"  -> FilterCustom(e)

RECURSIVE RepeatGo(_, _, _)
\* buf: events matching the filter since the last flush
RepeatGo(inp, buf, fname) ==
  IF inp = <<>> THEN <<>>
  ELSE LET e == Head(inp)
           buf1 == IF ~IsWrite(e) /\ Matches(fname, e) THEN Append(buf, e) ELSE buf
       IN IF e.t = "Finished"
          THEN <<e>> \o buf1 \o RepeatGo(Tail(inp), <<>>, fname)
          ELSE <<e>> \o RepeatGo(Tail(inp), buf1, fname)
Repeat(inp, fname) == RepeatGo(inp, <<>>, fname)

\* ---- Or ----------------------------------------------------------------
\* predicate used by the harness: events of scenario S1 and parser errors go left
OrLeft(e) == (IsSc(e) /\ e.s = "S1") \/ e.t = "ParseErr"
OrSide(inp, left) == SelectSeq(inp, LAMBDA e : ~IsWrite(e) /\ (OrLeft(e) = left))

NoWrites(inp) == SelectSeq(inp, LAMBDA e : ~IsWrite(e))

\* ---- statistics the Stats getters of a Summarize leaf would show --------
RetriedF(e) == e.retr /\ e.left > 0 /\ e.err # "notfound"
CountK(seq, k) == Cardinality({i \in DOMAIN seq : IsSc(seq[i]) /\ seq[i].k = k})
CountFailed(seq, retried) ==
  Cardinality({i \in DOMAIN seq : IsSc(seq[i]) /\ seq[i].k = "StepF" /\ RetriedF(seq[i]) = retried})
\* The recording leaf writer of the harness implements Stats by counting what
\* it received (all of it, replays included).
LeafStats(seq0) ==
  LET seq == NoWrites(seq0) IN
  [passed |-> CountK(seq, "StepP"),
   skipped |-> CountK(seq, "StepSk"),
   failed |-> CountFailed(seq, FALSE),
   retried |-> CountFailed(seq, TRUE),
   perr |-> Cardinality({i \in DOMAIN seq : seq[i].t = "ParseErr"}),
   herr |-> CountK(seq, "HookF")]
ZeroStats == [passed |-> 0, skipped |-> 0, failed |-> 0, retried |-> 0, perr |-> 0, herr |-> 0]
Max(a, b) == IF a >= b THEN a ELSE b
StatsMax(a, b) == [k \in DOMAIN a |-> Max(a[k], b[k])]
StatsSum(a, b) == [k \in DOMAIN a |-> a[k] + b[k]]

\* ---- nestings built by the harness (harness/src/writers.rs, replay_comb) --
\* result: [leaves |-> <<what leaf 1 received, ...>>, stats |-> what the outermost Stats getters show]
One(seq) == [leaves |-> <<seq>>, stats |-> LeafStats(seq)]
Nest(name, inp) ==
  CASE name = "fos"        -> One(FoS(inp, ShouldFailDefault))
    [] name = "fos_custom" -> One(FoS(inp, ShouldFailCustom))
    [] name = "rep_skipped" -> One(Repeat(inp, "skipped"))
    [] name = "rep_failed"  -> One(Repeat(inp, "failed"))
    [] name = "rep_custom"  -> One(Repeat(inp, "custom"))
    \* Cucumber::repeat_failed().fail_on_skipped(): events pass the rewrite first
    [] name = "fos_rep_failed" -> One(Repeat(FoS(inp, ShouldFailDefault), "failed"))
    \* Tee(leaf, discard::Stats(leaf)): both get everything; stats = max = left's
    [] name = "tee" -> [leaves |-> <<inp, inp>>, stats |-> StatsMax(LeafStats(inp), ZeroStats)]
    \* the discarded side on the left: the maximum is the right one's
    [] name = "tee_left_discarded" -> [leaves |-> <<inp, inp>>, stats |-> StatsMax(ZeroStats, LeafStats(inp))]
    [] name = "tee_rep" ->
         LET l1 == Repeat(inp, "failed")   l2 == Repeat(inp, "skipped") IN
         [leaves |-> <<l1, l2>>, stats |-> StatsMax(LeafStats(l1), LeafStats(l2))]
    \* left leaf behind discard::Arbitrary: it gets no writes
    [] name = "tee_discard" ->
         [leaves |-> <<NoWrites(inp), inp>>, stats |-> StatsMax(LeafStats(inp), LeafStats(inp))]
    \* Or: exactly one side per event (writes are not events); stats = sum
    [] name = "or" ->
         [leaves |-> <<OrSide(inp, TRUE), OrSide(inp, FALSE)>>,
          stats |-> StatsSum(LeafStats(OrSide(inp, TRUE)), LeafStats(OrSide(inp, FALSE)))]
    \* right side behind discard::Stats: its statistics are zero
    [] name = "or_discard_stats" ->
         [leaves |-> <<OrSide(inp, TRUE), OrSide(inp, FALSE)>>,
          stats |-> StatsSum(LeafStats(OrSide(inp, TRUE)), ZeroStats)]

Nestings == {"fos", "fos_custom", "rep_skipped", "rep_failed", "rep_custom", "fos_rep_failed",
             "tee", "tee_left_discarded", "tee_rep", "tee_discard", "or", "or_discard_stats"}
=============================================================================
