"""runner-trace engine: C01..C10 (and the runner half of C18).

1. MC: Runner.tla (reference executor design) is model-checked against the
   property monitor RunnerObs.tla for small constants (MC_Runner*.cfg).
2. Conformance: seeded cases drive the REAL runner::Basic through the gate
   controlled test double (harness `drive`); the recorded linearization points
   are validated by TLC against the same monitor (Trace_Runner.tla).
One engine run serves all runner properties; results are cached by content
hash of /repo + /verif sources, tier and seed."""
import collections
import json
import os
import subprocess
import time
from concurrent.futures import ThreadPoolExecutor

import gen_cases
from common import (HARNESS_BIN, SPEC, WORK, ToolError, build_harness, cache_get, cache_put, log,
                    read_ndjson, require_ok, seed, tlc, tlc_lines, write_ndjson)

PROPS = ["C01", "C02", "C03", "C04", "C05", "C06", "C07", "C08", "C09", "C10"]
NCASES = {"quick": 400, "thorough": 6000}
SHARDS = {"quick": 2, "thorough": 10}


def drive_and_validate(cases, tag):
    """Drives the cases on the real runner and validates the trace with TLC.
    Returns (summaries by case id, trace path, number of records)."""
    build_harness()
    cin = os.path.join(WORK, f"{tag}_cases.ndjson")
    tout = os.path.join(WORK, f"{tag}_trace.ndjson")
    write_ndjson(cin, cases)
    r = subprocess.run([HARNESS_BIN, "drive", cin, tout], stdout=subprocess.PIPE,
                       stderr=subprocess.PIPE, text=True, timeout=3600)
    if r.returncode != 0:
        raise ToolError(f"harness drive failed rc={r.returncode}: {r.stderr[-2000:]}")
    nrec = sum(1 for _ in open(tout))
    t = tlc("Trace_Runner.tla", os.path.join(SPEC, "Trace_Runner.cfg"), workers=1,
            env={"TRACE": tout}, timeout=3600, tag=tag, xss=True, heap="4g")
    require_ok(t, "Trace_Runner")
    summ = tlc_lines(t["out"], "CASE")
    ids = [c["id"] for c in cases]
    got = [s["case"] for s in summ]
    if got != ids[:len(got)] or len(got) < len(ids):
        # the harness stops early only after several hung cases
        if len(got) < len(ids) and got == ids[:len(got)] and r.stderr.find("too many hung") >= 0:
            pass
        else:
            raise ToolError(f"Trace_Runner judged {len(got)} of {len(ids)} cases")
    return {s["case"]: s for s in summ}, tout, nrec


def _case_features(case):
    """Python-side facts used only for coverage accounting (never for verdicts)."""
    e = case["expect"]
    scen = e["scen"]
    return {
        "lazy": any(p.get("pending", 0) > 0 for p in case["parser"]),
        "perr": any(p["item"] == "err" for p in case["parser"]),
        "rules": len(e["rules"]) > 0,
        "serial": any(s["serial"] for s in scen.values()),
        "mixed_serial": any(s["serial"] for s in scen.values()) and any(not s["serial"] for s in scen.values()),
        "retry": any(s["budget"] > 0 for s in scen.values()),
        "delay": any(s["delay_us"] > 0 for s in scen.values()),
        "fail_fast": e["fail_fast"],
        "hooks": e["before"] or e["after"],
        "limit_small": 0 < e["limit"] <= 3,
        "nscen": len(scen),
        "twin": e["twin"],
    }


NONTRIVIAL = {
    "C01": ("the run contains a failed attempt, a parser error or a skipped step (the verdict could go either way)",
            lambda f, s: s["stats"]["panics"] > 0 or f["perr"] or "skipped" in s["outcomes"].values()),
    "C02": ("at least one attempt ran and one of: a hook is set, a step was skipped or failed, a retry happened",
            lambda f, s: f["nscen"] > 0 and (f["hooks"] or s["stats"]["panics"] > 0 or s["stats"]["retried"] > 0
                                             or "skipped" in s["outcomes"].values())),
    "C03": ("the case has a rule, a parser error, a lazily delivered item or an empty feature",
            lambda f, s: f["rules"] or f["perr"] or f["lazy"]),
    "C04": ("some parser item returned Pending before it was delivered",
            lambda f, s: f["lazy"]),
    "C05": ("at least one retry attempt was started",
            lambda f, s: s["stats"]["retried"] > 0),
    "C06": ("the concurrency limit (1..3) was reached at least once",
            lambda f, s: f["limit_small"] and s["stats"]["fullSlots"] > 0),
    "C07": ("a serial attempt ran in a case that also has concurrent scenarios",
            lambda f, s: f["mixed_serial"] and s["stats"]["serialIsolated"] > 0),
    "C08": ("fail-fast is on and a final failure or parser error occurred, or the case is a fail-fast twin",
            lambda f, s: f["fail_fast"] and (f["twin"] or f["perr"] or "failed" in s["outcomes"].values())),
    "C09": ("a hook is set and at least one attempt ran",
            lambda f, s: f["hooks"] and f["nscen"] > 0),
    "C10": ("at least one panic or World error was thrown",
            lambda f, s: s["stats"]["panics"] > 0),
}


def run_engine(tier):
    cached = cache_get("runner", tier)
    if cached:
        log("[runner] using cached engine result")
        return cached
    t0 = time.time()
    import engine_runner_mc
    mc = engine_runner_mc.model_check(tier)
    n = NCASES[tier]
    cases = gen_cases.gen_cases(seed(), n)
    shards = SHARDS[tier]
    # keep twin pairs adjacent: shard by pair-preserving chunks instead
    parts = []
    chunk = (len(cases) + shards - 1) // shards
    i = 0
    while i < len(cases):
        j = min(len(cases), i + chunk)
        if j < len(cases) and cases[j]["expect"]["twin"]:
            j += 1
        parts.append(cases[i:j])
        i = j
    build_harness()
    with ThreadPoolExecutor(max_workers=min(len(parts), 6)) as ex:
        futs = [ex.submit(drive_and_validate, p, f"runner{k}") for k, p in enumerate(parts)]
        results = [f.result() for f in futs]
    summaries = {}
    nrec = 0
    for s, _, nr in results:
        summaries.update(s)
        nrec += nr
    viols = []
    per_case = {}
    for c in cases:
        s = summaries.get(c["id"])
        if s is None:
            continue
        per_case[c["id"]] = {"features": _case_features(c), "stats": s["stats"],
                             "outcomes": s["outcomes"] if isinstance(s["outcomes"], dict) else {},
                             "ended": s["ended"]}
        for v in s["viol"]:
            viols.append({"case": c["id"], "prop": v[0], "rule": v[1], "seq": v[2]})
    # keep the cases that violate something, for replay files
    bad_ids = {v["case"] for v in viols}
    res = {"mc": mc, "ncases": len(per_case), "nrecords": nrec, "viols": viols,
           "per_case": per_case, "bad_cases": [c for c in cases if c["id"] in bad_ids][:200],
           "sample_case": cases[3], "wall_s": time.time() - t0}
    cache_put("runner", tier, res)
    return res


def check_prop(prop):
    def fn(tier):
        t0 = time.time()
        res = run_engine(tier)
        rule_text, pred = NONTRIVIAL[prop]
        nontriv = sum(1 for pc in res["per_case"].values()
                      if pred(pc["features"], pc))
        bad = {c["id"]: c for c in res["bad_cases"]}
        violations = []
        for v in res["viols"]:
            if v["prop"] != prop:
                continue
            violations.append({
                "sig": f"{prop}:{v['rule']}",
                "what": f"{v['rule']} (case {v['case']}, record seq {v['seq']})",
                "replay": {"property": prop, "rule": v["rule"], "seq": v["seq"],
                           "case": bad.get(v["case"])},
            })
        mc = res["mc"]
        sc = res["sample_case"]
        coverage = {
            "states": sum(m["states"] for m in mc["configs"]),
            "distinct_states": sum(m["distinct"] for m in mc["configs"]),
            "transitions": sum(m["states"] for m in mc["configs"]),
            "mc_configs": mc["configs"],
            "exhaustive": True,
            "checker_cmd": "tlc -workers 8 -config MC_Runner_*.cfg MC_Runner.tla ; harness drive ; "
                           "tlc -workers 1 Trace_Runner.tla",
            "traces_validated_against_impl": res["ncases"],
            "trace_records": res["nrecords"],
            "evaluations": res["ncases"],
            "distinct_nontrivial": nontriv,
            "rule": "cases are generated from the seed (lib/gen_cases.py), distinct by construction; "
                    "a driven run is non-trivial for this property if " + rule_text,
            "samples": [{"case_id": sc["id"],
                         "features": sc["features"], "parser": sc["parser"], "cfg": sc["cfg"],
                         "outcomes": sc["outcomes"], "schedule": sc["schedule"],
                         "summary": res["per_case"].get(sc["id"])}],
            "engine_wall_s": round(res["wall_s"], 1),
        }
        return {"level": "model_checking", "coverage": coverage, "violations": violations,
                "assumptions": [
                    "TLC 1.8.0; MC_Runner explores the reference design exhaustively only for its small constants",
                    "hook records are emitted after the state change and before the next await (single-threaded executor)",
                    "the test double (gates, scripted outcomes) only adds Pending returns, which the runner must tolerate",
                    "real time is used one-sidedly (retry delay lower bound); time stamps come from one monotonic clock",
                    "the expected structure of a case (`expect`) is computed by lib/gen_cases.py from the same description the harness renders to Gherkin",
                ], "wall_s": time.time() - t0}
    return fn


def replay(prop, payload):
    case = payload["case"]
    if case is None:
        raise ToolError("replay file has no case")
    summ, _, _ = drive_and_validate([case], "runner_replay")
    return summ[case["id"]]
