------------------------------ MODULE StepMatch ------------------------------
(***************************************************************************)
(* C17: step::Collection::find (src/step.rs).                              *)
(*                                                                         *)
(* The collection is a SET of definitions (keyword, regex id, location):   *)
(* the model is order-free by construction, so replaying every             *)
(* registration ORDER of a set against it checks order independence.       *)
(* Regexes and step texts are identified by ids; the match relation and    *)
(* the capture groups (name or "", value, "" for a group that did not      *)
(* participate) are the table below, which the harness cross-checks        *)
(* against the `regex` crate before trusting it.                           *)
(***************************************************************************)
EXTENDS Integers, Sequences, FiniteSets, TLC

Range(seq) == {seq[i] : i \in DOMAIN seq}

\* regex id -> pattern (concretised by the harness from this very table)
Regexes == [r1 |-> "^a(b)?(c)(é+)$", r2 |-> "^a.*$", r3 |-> "^(?P<x>\\w+) (?P<y>\\d+)$",
            r4 |-> "^((a)|(b))c$", r5 |-> "^ü(.)$",
            r6 |-> "(\\d+) cucumbers?"]          \* not anchored: the whole match is a part of the text
Texts == [t1 |-> "acéé", t2 |-> "abcé", t3 |-> "foo 12", t4 |-> "ac", t5 |-> "bc",
          t6 |-> "üx", t7 |-> "zzz", t8 |-> "there are 12 cucumbers here", t9 |-> "7 cucumber"]

G(name, val) == [name |-> name, val |-> val]
\* <<regex, text>> -> capture groups after the whole match
Caps == [p \in {<<"r1", "t1">>, <<"r1", "t2">>, <<"r2", "t1">>, <<"r2", "t2">>, <<"r2", "t4">>,
                <<"r3", "t3">>, <<"r4", "t4">>, <<"r4", "t5">>, <<"r5", "t6">>,
                <<"r6", "t8">>, <<"r6", "t9">>} |->
  CASE p = <<"r1", "t1">> -> <<G("", ""), G("", "c"), G("", "éé")>>
    [] p = <<"r1", "t2">> -> <<G("", "b"), G("", "c"), G("", "é")>>
    [] p = <<"r3", "t3">> -> <<G("x", "foo"), G("y", "12")>>
    [] p = <<"r4", "t4">> -> <<G("", "a"), G("", "a"), G("", "")>>
    [] p = <<"r4", "t5">> -> <<G("", "b"), G("", ""), G("", "b")>>
    [] p = <<"r5", "t6">> -> <<G("", "x")>>
    [] p = <<"r6", "t8">> -> <<G("", "12")>>
    [] p = <<"r6", "t9">> -> <<G("", "7")>>
    [] OTHER -> <<>>]
Matches(r, t) == <<r, t>> \in DOMAIN Caps
\* the whole match (group 0): the text itself for the anchored regexes
Whole(r, t) == IF <<r, t>> = <<"r6", "t8">> THEN "12 cucumbers" ELSE Texts[t]

Keywords == {"Given", "When", "Then"}
\* a definition: [kw, re, loc] ; loc 0 = None, else a line number
Def(kw, re, loc) == [kw |-> kw, re |-> re, loc |-> loc]

\* find(defs, kw, t)
Find(defs, kw, t) ==
  LET cands == {d \in defs : d.kw = kw /\ Matches(d.re, t)} IN
  IF cands = {} THEN [res |-> "none", cands |-> {}, re |-> "", loc |-> 0, whole |-> "", groups |-> <<>>]
  ELSE IF Cardinality(cands) = 1
  THEN LET d == CHOOSE x \in cands : TRUE IN
       [res |-> "one", cands |-> {}, re |-> d.re, loc |-> d.loc, whole |-> Whole(d.re, t),
        groups |-> Caps[<<d.re, t>>]]
  ELSE [res |-> "ambiguous", cands |-> {[re |-> d.re, loc |-> d.loc] : d \in cands},
        re |-> "", loc |-> 0, whole |-> "", groups |-> <<>>]

\* pool of definitions the registration sequences are drawn from
Pool == {Def("Given", "r1", 0), Def("Given", "r2", 1), Def("Given", "r2", 2), Def("When", "r2", 1),
         Def("Given", "r3", 0), Def("Then", "r4", 3), Def("Then", "r2", 0), Def("Given", "r5", 1),
         Def("When", "r1", 2), Def("Given", "r6", 4), Def("Then", "r6", 0)}
=============================================================================
