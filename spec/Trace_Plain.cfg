SPECIFICATION Spec
POSTCONDITION AllChecked
CHECK_DEADLOCK FALSE
