--------------------------- MODULE Trace_Reporters ---------------------------
(***************************************************************************)
(* C14, impl -> spec: the facts parsed back from the output of the REAL     *)
(* terminal / libtest / Cucumber-JSON / JUnit writers (each behind          *)
(* Normalize) against ExpFacts of the stream that was fed; plus            *)
(* well-formedness, libtest started/result pairing and totals.             *)
(***************************************************************************)
EXTENDS Reporters, Json, IOUtils
Rec == ndJsonDeserialize(IOEnv.TRACE)
TraceU == Rec[1].universe
VARIABLE l
Init == l = 1

Tup(f) == <<f[1], f[2], f[3], f[4], f[5]>>
Facts(r, name) == [i \in DOMAIN r.facts[name] |-> Tup(r.facts[name][i])]

Bad(r) ==
  LET exp == ExpFacts(r.stream)
      lt == r.info.libtest
      lo == NFinalFailed(r.stream) + NHookF(r.stream) - NHookFRetried(r.stream)
      hi == NFinalFailed(r.stream) + NHookF(r.stream)
      perReporter(name) ==
        (IF r.info[name].wellformed THEN {} ELSE {<<name, "not-well-formed">>})
        \cup (IF r.panics[name] = "" THEN {} ELSE {<<name, "writer-panicked">>})
        \cup (IF BagDiff(exp, Facts(r, name)) = {} THEN {} ELSE {<<name, "facts-differ-from-stream">>})
      \* known shape F8: the only facts missing from the JUnit document are the steps of attempts
      \* whose testcase is <skipped/>
      junitBad ==
        (IF r.info.junit.wellformed THEN {} ELSE {<<"junit", "not-well-formed">>})
        \cup (IF r.panics.junit = "" THEN {} ELSE {<<"junit", "writer-panicked">>})
        \cup (IF BagDiff(exp, Facts(r, "junit")) = {} THEN {}
              ELSE IF BagDiff(JUnitListedFacts(r.stream), Facts(r, "junit")) = {}
                   THEN {<<"junit", "steps-of-a-skipped-testcase-are-not-listed">>}
                   ELSE {<<"junit", "facts-differ-from-stream">>})
  IN perReporter("basic") \cup perReporter("libtest") \cup perReporter("json") \cup junitBad
     \cup (IF lt.unpaired = 0 THEN {} ELSE {<<"libtest", "started-line-without-one-result-of-the-same-name">>})
     \cup (IF lt.dup_started = 0 THEN {} ELSE {<<"libtest", "two-started-lines-with-the-same-name">>})
     \* "under its feature": one feature prefix per feature, different features under different prefixes
     \* (a path-less feature is told apart by the ordinal the writer gives it)
     \cup (IF lt.feature_clash = 0 THEN {} ELSE {<<"libtest", "scenarios-of-different-features-listed-under-one-feature">>})
     \cup (IF lt.suite_started = 1 /\ lt.suite_result = 1 THEN {} ELSE {<<"libtest", "suite-lines">>})
     \cup (IF lt.suite_result # 1 \/ (lt.suite.passed = lt.n_ok /\ lt.suite.ignored = lt.n_ignored) THEN {}
           ELSE {<<"libtest", "passed-or-ignored-total-differs-from-entries">>})
     \cup (IF lt.suite_result # 1 \/ (lo <= lt.suite.failed /\ lt.suite.failed <= hi) THEN {}
           ELSE {<<"libtest", "failed-total-differs-from-entries">>})
     \cup (IF lt.suite_result # 1 \/ ((lt.suite.event = "failed") = (lt.suite.failed > 0)) THEN {}
           ELSE {<<"libtest", "verdict-disagrees-with-failed-total">>})
     \cup (IF r.info.junit.status_mismatch = 0 THEN {} ELSE {<<"junit", "testcase-status-contradicts-its-entries">>})
     \cup (IF r.info.junit.totals_mismatch = 0 THEN {} ELSE {<<"junit", "suite-totals-differ-from-its-testcases">>})
     \cup (IF r.info.junit.message_mismatch = 0 THEN {} ELSE {<<"junit", "failure-message-attribute-is-not-the-failure-message">>})
     \* "under its feature": a feature with a source path is ONE object of the Cucumber JSON document
     \* (path-less features have no key to be grouped by; the writer opens a new object per event for them)
     \cup (IF r.info.json.dup_features = 0 THEN {} ELSE {<<"json", "feature-with-a-source-path-listed-more-than-once">>})

Detail(r) ==
  [n \in {"basic", "libtest", "json", "junit"} |-> BagDiff(ExpFacts(r.stream), Facts(r, n))]

Next ==
  /\ l <= Len(Rec)
  /\ LET r == Rec[l]   b == Bad(r) IN
     PrintT(<<"VERDICT", ToJson([id |-> r.id, bad |-> b,
                                 detail |-> IF b = {} THEN <<>> ELSE Detail(r)])>>)
  /\ l' = l + 1
Spec == Init /\ [][Next]_l
AllChecked ==
  IF TLCGet("stats").diameter = Len(Rec) + 1 THEN TRUE
  ELSE PrintT(<<"INCOMPLETE", TLCGet("stats").diameter, Len(Rec)>>) /\ FALSE
=============================================================================
