"""Python value -> TLA+ literal (records, sequences, strings, ints, booleans)."""


def lit(v):
    if isinstance(v, bool):
        return "TRUE" if v else "FALSE"
    if isinstance(v, int):
        return str(v)
    if isinstance(v, str):
        return '"' + v.replace("\\", "\\\\").replace('"', '\\"') + '"'
    if isinstance(v, (list, tuple)):
        return "<<" + ", ".join(lit(x) for x in v) + ">>"
    if isinstance(v, dict):
        if not v:
            return "<<>>"
        # record fields must be identifiers; other keys need an explicit function
        if all(k.isidentifier() for k in v):
            return "[" + ", ".join(f"{k} |-> {lit(x)}" for k, x in v.items()) + "]"
        return "(" + " @@ ".join(f"({lit(k)} :> {lit(x)})" for k, x in v.items()) + ")"
    raise TypeError(f"cannot render {type(v)} as TLA+")
