"""writers-replay engine: C11 (Normalize), later C12/C13/C14/C01a."""
import json
import os
import time

from common import (SPEC, WORK, ToolError, log, read_ndjson, require_ok, run_harness, seed,
                    tlc, tlc_lines, write_ndjson)

# ---------------------------------------------------------------------------
# C11
# ---------------------------------------------------------------------------

# (cfg suffix, universe, Body, MaxErr, EarlyClose, FreeImm)
C11_MC = {
    "quick": [("A", "UA", 1, 1, "FALSE", "TRUE"),
              ("B", "UB", 0, 0, "FALSE", "FALSE"),
              ("C", "UC", 0, 0, "FALSE", "FALSE")],
    "thorough": [("A", "UA", 1, 1, "FALSE", "TRUE"),
                 ("Ae", "UA", 1, 1, "TRUE", "TRUE"),
                 ("B", "UB", 0, 0, "FALSE", "FALSE"),
                 ("Be", "UB", 0, 0, "TRUE", "FALSE"),
                 ("C", "UC", 0, 0, "FALSE", "FALSE"),
                 ("D", "UD", 0, 0, "FALSE", "FALSE"),
                 ("E", "UE", 0, 0, "FALSE", "FALSE")],
}

# (universe, Fails, Body, MaxErr, EarlyClose, FreeImm, mode, num)
C11_GEN = {
    "quick": [("UA", "Fails1", 1, 1, "FALSE", "TRUE", "sim", 150),
              ("UA", "FailsAll", 1, 0, "TRUE", "TRUE", "sim", 60),
              ("UB", "Fails1", 1, 1, "FALSE", "TRUE", "sim", 150),
              ("UC", "Fails1", 1, 1, "FALSE", "TRUE", "sim", 150),
              ("UD", "Fails1", 1, 0, "FALSE", "TRUE", "sim", 120),
              ("UD", "Fails0", 0, 0, "TRUE", "FALSE", "sim", 60),
              ("UE", "Fails1", 1, 1, "FALSE", "TRUE", "sim", 120)],
    "thorough": [("UA", "Fails1", 1, 1, "FALSE", "TRUE", "sim", 3000),
                 ("UA", "FailsAll", 1, 0, "TRUE", "TRUE", "sim", 1000),
                 ("UA", "Fails0", 0, 0, "FALSE", "FALSE", "bfs", 0),
                 ("UB", "Fails1", 1, 1, "FALSE", "TRUE", "sim", 3000),
                 ("UB", "Fails1", 0, 0, "TRUE", "FALSE", "sim", 1000),
                 ("UC", "Fails1", 1, 1, "FALSE", "TRUE", "sim", 3000),
                 ("UD", "Fails1", 1, 0, "FALSE", "TRUE", "sim", 3000),
                 ("UD", "Fails0", 0, 0, "TRUE", "FALSE", "sim", 1000),
                 ("UE", "Fails1", 1, 1, "FALSE", "TRUE", "sim", 3000),
                 ("UE", "FailsAll", 1, 1, "TRUE", "TRUE", "sim", 1000)],
}


def _cfg(path, spec, consts, invs=(), post=None):
    with open(path, "w") as f:
        f.write(f"SPECIFICATION {spec}\nCONSTANTS\n")
        for k, v in consts:
            f.write(f"  {k} {v}\n")
        if invs:
            f.write("INVARIANTS " + " ".join(invs) + "\n")
        if post:
            f.write(f"POSTCONDITION {post}\n")
        f.write("CHECK_DEADLOCK FALSE\n")


def c11_model(tier):
    mcs = []
    for (sfx, uni, body, maxerr, early, free) in C11_MC[tier]:
        cfg = os.path.join(WORK, f"MC_Normalize_{sfx}.cfg")
        _cfg(cfg, "Spec", [("U", "<- " + uni), ("Fails", "<- Fails1"), ("Body", f"= {body}"),
                           ("MaxErr", f"= {maxerr}"), ("EarlyClose", f"= {early}"),
                           ("FreeImm", f"= {free}")],
             invs=("NoViolation", "NoPanic", "EndOK") + (() if early == "TRUE" else ("QueueDrained",)))
        r = tlc("MC_Normalize.tla", cfg, workers=8, timeout=1500, tag="mcnorm" + sfx)
        require_ok(r, f"MC_Normalize {sfx}")
        if r["violated"]:
            raise ToolError(f"MC_Normalize {sfx}: the reference model violates {r['violated']} "
                            "(specification defect, not a verdict about the code):\n"
                            + "\n".join(r["out"].splitlines()[-60:]))
        mcs.append({"cfg": f"MC_Normalize[{uni},Body={body},MaxErr={maxerr},EarlyClose={early},"
                           f"FreeImm={free}]", "states": r.get("states", 0),
                    "distinct": r.get("distinct", 0), "depth": r.get("depth", 0),
                    "wall_s": r["wall_s"],
                    "invariants": ["NoViolation", "NoPanic", "EndOK", "QueueDrained"]})
        log(f"[C11] MC {sfx}: {r.get('distinct')} distinct states, {r['wall_s']}s")
    return mcs


def c11_generate(tier):
    streams = []
    gens = []
    for n, (uni, fails, body, maxerr, early, free, mode, num) in enumerate(C11_GEN[tier]):
        cfg = os.path.join(WORK, f"Gen_Normalize_{n}.cfg")
        _cfg(cfg, "Spec", [("U", "<- " + uni), ("Fails", "<- " + fails), ("Body", f"= {body}"),
                           ("MaxErr", f"= {maxerr}"), ("EarlyClose", f"= {early}"),
                           ("FreeImm", f"= {free}")], invs=("Dump",))
        sim = {"num": num, "depth": 200, "seed": seed() * 1000 + n} if mode == "sim" else None
        r = tlc("Gen_Normalize.tla", cfg, workers=1 if sim else 4, simulate=sim, timeout=900,
                tag=f"gennorm{n}")
        require_ok(r, f"Gen_Normalize {uni}")
        got = tlc_lines(r["out"], "REPLAY")
        for k, g in enumerate(got):
            g["id"] = f"{uni}.{fails}.b{body}.e{maxerr}.{'ec' if early == 'TRUE' else 'full'}.{k}"
        gens.append({"universe": uni, "fails": fails, "body": body, "max_err": maxerr,
                     "early_close": early == "TRUE", "mode": mode, "behaviours": len(got),
                     "wall_s": r["wall_s"]})
        streams.extend(got)
    return streams, gens


def c11_conform(streams, tag="c11"):
    """Replays streams through the real Normalize and judges the recorded
    histories with the TLA+ monitor.  Returns verdict records."""
    inp = os.path.join(WORK, f"{tag}_replay_in.ndjson")
    outp = os.path.join(WORK, f"{tag}_replay_out.ndjson")
    write_ndjson(inp, streams)
    run_harness(["replay-normalize", inp, outp])
    recs = read_ndjson(outp)
    if len(recs) != len(streams):
        raise ToolError("replay-normalize returned a different number of records")
    r = tlc("Trace_Normalize.tla", os.path.join(SPEC, "Trace_Normalize.cfg"), workers=1,
            env={"TRACE": outp}, timeout=1800, tag=tag + "trace", xss=True)
    require_ok(r, "Trace_Normalize")
    verdicts = tlc_lines(r["out"], "VERDICT")
    if len(verdicts) != len(recs):
        raise ToolError(f"Trace_Normalize judged {len(verdicts)} of {len(recs)} histories")
    return recs, verdicts, r


def check_c11(tier):
    t0 = time.time()
    mcs = c11_model(tier)
    streams, gens = c11_generate(tier)
    recs, verdicts, tr = c11_conform(streams)
    byid = {r["id"]: r for r in recs}
    violations = []
    refines = 0
    distinct = set()
    nontrivial = 0
    for v in verdicts:
        rec = byid[v["id"]]
        key = json.dumps(rec["inp"], sort_keys=True)
        if key not in distinct:
            distinct.add(key)
            # non-trivial: the stream is not already sequential, i.e. the real
            # writer had to hold back at least one event
            if any(len(d) != 1 for d in rec["outs"]):
                nontrivial += 1
        if rec.get("ref") is not None and rec["outs"] == rec["ref"]:
            refines += 1
        if v["viol"] or v["panic"]:
            violations.append({
                "sig": "C11:" + (v["viol"][0][0] if v["viol"] else "panic"),
                "what": (f"{v['viol'][0][0]} at input #{v['viol'][0][1]}" if v["viol"]
                         else "writer::Normalize panicked: " + v["panic"]),
                "replay": {"property": "C11", "record": {"id": rec["id"], "stream": rec["inp"],
                                                         "universe": next(s["universe"] for s in streams if s["id"] == rec["id"])},
                           "verdict": v},
            })
    sample = recs[len(recs) // 2]
    coverage = {
        "states": sum(m["states"] for m in mcs),
        "distinct_states": sum(m["distinct"] for m in mcs),
        "transitions": sum(m["states"] for m in mcs),
        "exhaustive": True,
        "mc_configs": mcs,
        "checker_cmd": "tlc -workers 8 -config MC_Normalize_<U>.cfg MC_Normalize.tla ; "
                       "tlc -simulate Gen_Normalize ; harness replay-normalize ; "
                       "tlc -workers 1 Trace_Normalize.tla",
        "generators": gens,
        "traces_validated_against_impl": len(verdicts),
        "trace_events": sum(len(r["inp"]) for r in recs),
        "refines_reference": refines,
        "evaluations": len(verdicts),
        "distinct_nontrivial": nontrivial,
        "rule": "a replayed stream is distinct by its event sequence and non-trivial if the real "
                "Normalize forwarded a delta of length != 1 for some input event (it had to "
                "buffer, i.e. the stream was not already sequential)",
        "samples": [{"id": sample["id"],
                     "input": [_short(e) for e in sample["inp"]],
                     "forwarded_per_input": [[_short(e) for e in d] for d in sample["outs"]]}],
    }
    return {"level": "model_checking", "coverage": coverage, "violations": violations,
            "assumptions": [
                "TLC 1.8.0 explores MC_Normalize exhaustively for the listed constants only",
                "streams fed to the real writer are contract-abiding streams generated by TLC "
                "from Contract.tla (simulation mode samples, it does not enumerate)",
                "the harness' recording inner writer and its event projection (evjson.rs) are trusted",
                "events are built from real gherkin objects wrapped in Sources created once per universe",
            ], "wall_s": time.time() - t0}


def _short(e):
    if e["t"] == "Sc":
        return f"{e['s']}#{e['cur']}:{e['k']}" + (str(e["i"]) if e["i"] else "")
    if e["t"] in ("FeatS", "FeatF"):
        return f"{e['t']}({e['f']})"
    if e["t"] in ("RuleS", "RuleF"):
        return f"{e['t']}({e['r']})"
    return e["t"]


def replay_c11(payload):
    rec = payload["record"]
    recs, verdicts, _ = c11_conform([rec], tag="c11replay")
    return recs, verdicts
