------------------------------ MODULE Universes ------------------------------
(***************************************************************************)
(* Small universes used by the MC_* / Gen_* instances.  Same shape as the  *)
(* harness' FeatureSpec (see Events.tla).                                  *)
(***************************************************************************)
EXTENDS Naturals, Sequences

Sc(n, tags, steps) == [name |-> n, tags |-> tags, steps |-> steps]
Ru(n, tags, bg, scs) == [name |-> n, tags |-> tags, bg |-> bg, scenarios |-> scs]
Fe(n, tags, bg, scs, rules) ==
  [name |-> n, tags |-> tags, bg |-> bg, path |-> TRUE, scenarios |-> scs,
   rules |-> rules]

\* one feature, two top-level scenarios, one retried
UA == << Fe("F1", <<>>, <<>>, <<Sc("S1", <<"retry(1)">>, <<"run">>),
                               Sc("S2", <<>>, <<"run">>)>>, <<>>) >>
\* one feature: a rule with two scenarios and a top-level scenario
UB == << Fe("F1", <<>>, <<>>, <<Sc("S3", <<>>, <<"run">>)>>,
            <<Ru("R1", <<>>, <<>>, <<Sc("S1", <<>>, <<"run">>),
                                    Sc("S2", <<"retry(1)">>, <<"run">>)>>)>>) >>
\* two features; rule-first feature and a plain one
UC == << Fe("F1", <<>>, <<>>, <<Sc("S2", <<"retry(1)">>, <<"run">>)>>,
            <<Ru("R1", <<>>, <<>>, <<Sc("S1", <<>>, <<"run">>)>>)>>),
         Fe("F2", <<>>, <<>>, <<Sc("S3", <<>>, <<"run">>)>>, <<>>) >>
\* two rules in one feature, an empty rule and an empty feature
UD == << Fe("F1", <<>>, <<>>, <<>>,
            <<Ru("R1", <<>>, <<>>, <<Sc("S1", <<"retry(1)">>, <<"run">>)>>),
              Ru("R2", <<>>, <<>>, <<Sc("S2", <<>>, <<"run">>)>>),
              Ru("R3", <<>>, <<>>, <<>>)>>),
         Fe("F2", <<>>, <<>>, <<>>, <<>>) >>
\* three features, one scenario each
UE == << Fe("F1", <<>>, <<>>, <<Sc("S1", <<>>, <<"run">>)>>, <<>>),
         Fe("F2", <<>>, <<>>, <<Sc("S2", <<"retry(1)">>, <<"run">>)>>, <<>>),
         Fe("F3", <<>>, <<>>, <<Sc("S3", <<>>, <<"run">>)>>, <<>>) >>

Fails1 == [s \in {"S1", "S2", "S3"} |-> 1]   \* every retried scenario fails once
Fails0 == [s \in {"S1", "S2", "S3"} |-> 0]
FailsAll == [s \in {"S1", "S2", "S3"} |-> 5]
=============================================================================
