---------------------------- MODULE MC_Summarize ----------------------------
(***************************************************************************)
(* C12 / C01 (writer side), model side.  For EVERY sequential stream of a  *)
(* small universe (SeqGen) the declarative counters and the transcription  *)
(* of the code's indicator machine are run side by side.  TLC shows that   *)
(* the step counters always agree and that the scenario counters and the   *)
(* verdict differ ONLY in the three named shapes (F1, F4a, F4b) -- which   *)
(* become the signatures of the known findings.                            *)
(***************************************************************************)
EXTENDS SeqGen, Summarize, Universes

VARIABLES d, m
vars == <<gvars, d, m>>

Init == GInit /\ d = DeclInit /\ m = AsIsInit

Next ==
  \/ /\ GNext
     /\ IF GEmitted THEN d' = DeclStep(d, ev') /\ m' = AsIsStep(m, ev')
                    ELSE UNCHANGED <<d, m>>
  \/ GDone /\ UNCHANGED vars

Spec == Init /\ [][Next]_vars

StepCountersAgree == CountersOK(d, m)
ScenariosAgree == GDone => (ScenariosOK(d, m) \/ KnownShape(d))
VerdictAgrees == GDone => ((AsIsFailed(m) = DeclFailed(d)) \/ KnownShape(d))
\* the shapes need a retry: without retried attempts the code is exact
ExactWithoutRetries == GDone /\ d.retriedScen = {} => ScenariosOK(d, m) /\ (AsIsFailed(m) = DeclFailed(d))
OneSummary == m.writes <= 1
=============================================================================
