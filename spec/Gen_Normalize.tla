---------------------------- MODULE Gen_Normalize ----------------------------
(***************************************************************************)
(* C11, spec -> impl direction: dumps contract-abiding streams (one JSON   *)
(* line per complete behaviour) for replay through the real                *)
(* writer::Normalize.  The history variable makes every distinct stream a  *)
(* distinct state, so BFS enumerates all of them; -simulate samples.       *)
(* The reference model's deltas are dumped too ("ref"), as information.    *)
(***************************************************************************)
EXTENDS Contract, Normalize, Universes, Json

VARIABLES nst, hist, refs
vars == <<cvars, nst, hist, refs>>

Init == CInit /\ nst = NInit /\ hist = <<>> /\ refs = <<>>

Next ==
  /\ CNext
  /\ LET h == NHandle(nst, ev') IN
     /\ nst' = h.n
     /\ hist' = Append(hist, ev')
     /\ refs' = Append(refs, h.out)

Spec == Init /\ [][Next]_vars

Dump == CDone => PrintT(<<"REPLAY", ToJson([universe |-> U, stream |-> hist, ref |-> refs])>>)
=============================================================================
