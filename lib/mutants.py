#!/usr/bin/env python3
"""Applies hand-written mutants (string replacements) to /repo one at a time,
runs the owning property's quick check and reverts.  Calibration tool, not a
registered check.  usage: mutants.py [name ...]"""
import json
import subprocess
import sys
import time

B = "/repo/src/runner/basic.rs"
MUTANTS = [
    # name, owner props, file, old, new
    ("c06_no_slot_release", ["C06"], B, "                    *sc += 1;", "                    *sc += 0;"),
    ("c06_no_slot_take", ["C06"], B, "                *sc -= runnable.len();", "                *sc -= 0;"),
    ("c08_trip_on_retried", ["C08"], B, "if fail_fast && scenario_failed && !retried {", "if fail_fast && scenario_failed {"),
    ("c05_retry_on_pass", ["C05"], B, "retries.filter(|_| is_failed).and_then(RetryOptions::next_try);", "retries.and_then(RetryOptions::next_try);"),
    ("c10_hook_not_restored", ["C10"], B, "    panic::set_hook(hook);\n", "    drop(hook);\n"),
    ("c09_after_hook_no_world", ["C09"], B, "                    &ev,\n                    world.as_mut(),", "                    &ev,\n                    None,"),
    ("c03_count_retried", ["C03"], B, "        if is_retried {\n            return None;\n        }\n\n        let finished_scenarios = self\n            .features_scenarios_count", "        let finished_scenarios = self\n            .features_scenarios_count"),
    ("c05_ignore_delay", ["C05"], B, "        dur.checked_sub(instant?.elapsed())", "        dur.checked_sub(instant?.elapsed()).filter(|_| false)"),
    ("c01_verdict_ignores_parse_errors", ["C01"], "/repo/src/writer/mod.rs", "            || self.parsing_errors() > 0\n", ""),
    ("c04_drop_old_on_serial", ["C04"], B, "                values.extend(old);\n", "                drop(old);\n"),
    ("c07_serial_not_exclusive", ["C07"], B, "        if is_serial_running || (is_serial_ready && running > 0) {", "        if false && (is_serial_running || (is_serial_ready && running > 0)) {"),
    ("c02_skip_continues", ["C02"], B, "                self.send_event(skipped(step));\n                Err(ExecutionFailure::StepSkipped(world))", "                self.send_event(skipped(step));\n                world.ok_or(ExecutionFailure::StepSkipped(None))"),
    ("c12_left_ge_0", ["C12"], "/repo/src/writer/summarize.rs", "                        r.left > 0 && !matches!(err, event::StepError::NotFound)", "                        !matches!(err, event::StepError::NotFound)"),
    ("c12_count_after_finished", ["C12"], "/repo/src/writer/summarize.rs", "        if matches!(self.state, State::InProgress) {\n            match event.as_deref() {", "        if true {\n            match event.as_deref() {"),
    ("c13_fos_ignores_rule_tags", ["C13"], "/repo/src/writer/fail_on_skipped.rs", "                    .chain(rule.iter().flat_map(|r| &r.tags))\n                    .chain(&feat.tags)\n                    .any(|t| t == \"allow.skipped\")", "                    .chain(&feat.tags)\n                    .any(|t| t == \"allow.skipped\")"),
    ("c13_repeat_before_finished", ["C13"], "/repo/src/writer/repeat.rs", "        self.writer.handle_event(event, cli).await;\n\n        if is_finished {\n            for ev in mem::take(&mut self.events) {\n                self.writer.handle_event(ev, cli).await;\n            }\n        }", "        if is_finished {\n            for ev in mem::take(&mut self.events) {\n                self.writer.handle_event(ev, cli).await;\n            }\n        }\n        self.writer.handle_event(event, cli).await;"),
    ("c13_tee_min", ["C13"], "/repo/src/writer/tee.rs", "        cmp::max(self.left.failed_steps(), self.right.failed_steps())", "        cmp::min(self.left.failed_steps(), self.right.failed_steps())"),
    ("c13_or_left_only", ["C13"], "/repo/src/writer/or.rs", "        self.left.skipped_steps() + self.right.skipped_steps()", "        self.left.skipped_steps()"),
    ("c15_and_as_or", ["C15"], "/repo/src/tag.rs", "Self::And(l, r) => l.eval(tags.clone()) & r.eval(tags),", "Self::And(l, r) => l.eval(tags.clone()) | r.eval(tags),"),
    ("c15_rule_tags_ignored", ["C15"], "/repo/src/cucumber.rs", "                    .filter(|s| filter(&feature, Some(r), s))", "                    .filter(|s| filter(&feature, None, s))"),
    ("c16_positions_collide", ["C16"], "/repo/src/feature.rs", "            expanded.position.line += id + 2;", "            expanded.position.line += 2;"),
    ("c16_replace_first_only", ["C16"], "/repo/src/feature.rs", "                    .replace_all(str, |cap: &regex::Captures<'_>| {", "                    .replace(str, |cap: &regex::Captures<'_>| {"),
    ("c16_table_tags_first", ["C16"], "/repo/src/feature.rs", "            expanded.tags.extend(tags.cloned());", "            expanded.tags = tags.cloned().chain(expanded.tags.clone()).collect();"),
    ("c17_when_uses_given", ["C17"], "/repo/src/step.rs", "            StepType::When => &self.when,", "            StepType::When => &self.given,"),
    ("c17_unsorted_candidates", ["C17"], "/repo/src/step.rs", "                            .map(|(re, loc, ..)| (re.clone(), *loc))\n                            .sorted()\n", "                            .map(|(re, loc, ..)| (re.clone(), *loc))\n"),
    ("c17_skip_nonparticipating", ["C17"], "/repo/src/step.rs", "                (1..captures.len()).map(|group_id| {\n                    captures\n                        .get(group_id)\n                        .map_or(\"\", |(s, e)| &step.value[s..e])\n                        .to_owned()\n                }),", "                (1..captures.len()).filter_map(|group_id| {\n                    captures\n                        .get(group_id)\n                        .map(|(s, e)| step.value[s..e].to_owned())\n                }),"),
    ("c18_rule_before_scenario", ["C18"], B, "            parse_tags(&scenario.tags)\n                .or_else(|| rule.and_then(|r| parse_tags(&r.tags)))", "            rule.and_then(|r| parse_tags(&r.tags))\n                .or_else(|| parse_tags(&scenario.tags))"),
    ("c18_builder_over_cli", ["C18"], B, "        cli.retry = cli.retry.or(retries);", "        cli.retry = retries.or(cli.retry);"),
    ("c18_ff_and", ["C18"], B, "        let fail_fast = cli.fail_fast || fail_fast;", "        let fail_fast = cli.fail_fast && fail_fast;"),
    ("c20_wrong_scenario", ["C20"], "/repo/src/tracing.rs", "            id.and_then(|k| self.scenarios.get(&k))\n", "            id.and_then(|_| self.scenarios.values().next())\n"),
    ("c20_no_span_wait_in_step", ["C20"], B, "        let result = run.then_yield().await;\n\n        #[cfg(feature = \"tracing\")]\n        if let Some((waiter, id)) = waiter.zip(span_id) {\n            waiter.wait_for_span_close(id).then_yield().await;\n        }", "        let result = run.then_yield().await;\n\n        #[cfg(feature = \"tracing\")]\n        let _ = (waiter, span_id);"),
    ("c04_idle_no_yield", ["C04"], B, "                yield_now().await;\n", ""),
]


def run(names):
    results = {}
    for name, owners, path, old, new in MUTANTS:
        if names and name not in names:
            continue
        src = open(path).read()
        if src.count(old) != 1:
            results[name] = f"SKIP (pattern count {src.count(old)})"
            print(name, results[name], flush=True)
            continue
        open(path, "w").write(src.replace(old, new))
        try:
            out = {}
            for p in owners:
                t0 = time.time()
                r = subprocess.run(["/verif/check", p], cwd="/verif", stdout=subprocess.PIPE,
                                   stderr=subprocess.PIPE, text=True)
                lines = [l for l in r.stdout.splitlines() if l.startswith(("VIOLATION", "OK", "KNOWN"))]
                out[p] = {"rc": r.returncode, "lines": lines[:3], "s": round(time.time() - t0),
                          "err": r.stderr[-2500:] if r.returncode == 2 else ""}
            results[name] = out
        finally:
            open(path, "w").write(src)
        print(name, json.dumps(results[name]), flush=True)
    return results


if __name__ == "__main__":
    run(sys.argv[1:])
