------------------------------ MODULE Reporters ------------------------------
(***************************************************************************)
(* C14: the facts a built-in report must state, as a function of the       *)
(* (sequential) event stream it was fed.                                   *)
(*                                                                         *)
(* A fact is <<kind, scenario, key, status>>:                              *)
(*   <<"step", s, i, "passed"|"skipped"|"failed">>  one per executed step  *)
(*   <<"hook", s, -1|-2, "failed">>                 failed before/after hook *)
(*   <<"perr", "", 0, "failed">>                    parser error            *)
(* plus, as fifth component, the failure message token of a panicking step *)
(* or failing hook ("" otherwise): the report must carry the message.      *)
(* Reports are parsed back by independent parsers (lib/report_parsers.py:  *)
(* python json, xml.etree, a line grammar) into the same shape; retried    *)
(* attempts are distinct facts (bag semantics).                            *)
(***************************************************************************)
EXTENDS Univ

\* the message token the harness puts into the payload of a panicking step / failing hook
\* (harness/src/writers.rs, Objects::build): P|<scenario>|<attempt>|<kind><hook><index>
MsgOf(e) == "P|" \o e.s \o "|" \o ToString(e.cur) \o "|" \o e.k \o e.h \o ToString(e.i)
FactOf(e) ==
  IF e.t = "ParseErr" THEN <<"perr", "", 0, "failed", "">>
  ELSE IF e.k = "HookF" THEN <<"hook", e.s, IF e.h = "b" THEN -1 ELSE -2, "failed", MsgOf(e)>>
  ELSE <<"step", e.s, e.i,
         CASE e.k = "StepP" -> "passed" [] e.k = "StepSk" -> "skipped" [] OTHER -> "failed",
         IF e.k # "StepF" THEN ""
         ELSE CASE e.err = "panic" -> MsgOf(e)
                [] e.err = "ambig" -> "ambiguous"        \* the report must say WHY: ambiguous match,
                [] e.err = "notfound" -> "notfound"      \* no matching definition,
                [] OTHER -> "">>
IsFact(e) == e.t = "ParseErr" \/ (IsSc(e) /\ e.k \in {"StepP", "StepSk", "StepF", "HookF"})
ExpFacts(stream) == LET sel == SelectSeq(stream, IsFact) IN [i \in DOMAIN sel |-> FactOf(sel[i])]

Count(seq, x) == Cardinality({i \in DOMAIN seq : seq[i] = x})
\* facts whose multiplicity differs: <<fact, expected, got>>
BagDiff(exp, got) ==
  {<<x, Count(exp, x), Count(got, x)>> : x \in {y \in Range(exp) \cup Range(got) : Count(exp, y) # Count(got, y)}}

\* Step facts of attempts whose JUnit testcase is `<skipped/>` (last significant event is a
\* Skipped step): the JUnit format gives such a testcase no body, so its steps are not listed.
RECURSIVE SkippedAttemptFacts(_, _, _)
\* cur: facts of the running attempt; lastSk: its last significant event was StepSk
SkippedAttemptFacts(stream, cur, lastSk) ==
  IF stream = <<>> THEN <<>>
  ELSE LET e == Head(stream) IN
       IF ~IsSc(e) THEN SkippedAttemptFacts(Tail(stream), cur, lastSk)
       ELSE IF e.k = "Started" THEN SkippedAttemptFacts(Tail(stream), <<>>, FALSE)
       ELSE IF e.k = "Finished"
            THEN (IF lastSk THEN cur ELSE <<>>) \o SkippedAttemptFacts(Tail(stream), <<>>, FALSE)
       ELSE IF e.k \in {"StepP", "StepSk", "StepF"}
            THEN SkippedAttemptFacts(Tail(stream), Append(cur, FactOf(e)), e.k = "StepSk")
       ELSE IF e.k = "HookF" THEN SkippedAttemptFacts(Tail(stream), cur, FALSE)
       ELSE IF e.k \in {"HookS", "HookP"} /\ e.h = "b" THEN SkippedAttemptFacts(Tail(stream), cur, FALSE)
       ELSE SkippedAttemptFacts(Tail(stream), cur, lastSk)
\* bag difference a - b as a sequence (b must be a sub-bag)
RECURSIVE Minus(_, _)
Minus(a, b) ==
  IF b = <<>> THEN a
  ELSE LET i == CHOOSE j \in DOMAIN a : a[j] = Head(b) IN
       Minus(SubSeq(a, 1, i - 1) \o SubSeq(a, i + 1, Len(a)), Tail(b))
JUnitListedFacts(stream) == Minus(ExpFacts(stream), SkippedAttemptFacts(stream, <<>>, FALSE))

\* libtest totals
RetriedF(e) == IsSc(e) /\ e.k = "StepF" /\ e.retr /\ e.left > 0 /\ e.err # "notfound"
NFinalFailed(stream) ==
  Cardinality({i \in DOMAIN stream : IsSc(stream[i]) /\ stream[i].k = "StepF" /\ ~RetriedF(stream[i])})
  + Cardinality({i \in DOMAIN stream : stream[i].t = "ParseErr"})
NHookF(stream) == Cardinality({i \in DOMAIN stream : IsSc(stream[i]) /\ stream[i].k = "HookF"})
NHookFRetried(stream) ==
  Cardinality({i \in DOMAIN stream : IsSc(stream[i]) /\ stream[i].k = "HookF" /\ stream[i].retr /\ stream[i].left > 0})
=============================================================================
