-------------------------- MODULE Trace_Combinators --------------------------
(***************************************************************************)
(* C13, impl -> spec: what the recording leaves of every nesting of the    *)
(* REAL combinators received, and the outermost Stats getters, compared    *)
(* with Combinators!Nest for the same input.  One VERDICT line per input.  *)
(***************************************************************************)
EXTENDS Combinators, Json, IOUtils

Rec == ndJsonDeserialize(IOEnv.TRACE)
TraceU == Rec[1].universe

VARIABLE l
Init == l = 1

Bad(r) ==
  { <<n, what>> \in Nestings \X {"leaf1", "leaf2", "stats"} :
      LET exp == Nest(n, r.inp)   got == r.results[n] IN
      CASE what = "leaf1" -> got.leaves[1] # exp.leaves[1]
        [] what = "leaf2" -> Len(exp.leaves) = 2 /\ got.leaves[2] # exp.leaves[2]
        [] what = "stats" -> got.stats # exp.stats }

Next ==
  /\ l <= Len(Rec)
  /\ LET r == Rec[l] IN
     PrintT(<<"VERDICT", ToJson([id |-> r.id, n |-> Len(r.inp), panic |-> r.panic, bad |-> Bad(r)])>>)
  /\ l' = l + 1

Spec == Init /\ [][Next]_l

AllChecked ==
  IF TLCGet("stats").diameter = Len(Rec) + 1 THEN TRUE
  ELSE PrintT(<<"INCOMPLETE", TLCGet("stats").diameter, Len(Rec)>>) /\ FALSE
=============================================================================
