------------------------------- MODULE Events -------------------------------
(***************************************************************************)
(* Event vocabulary shared by every specification of the cucumber-rs       *)
(* verification family, and helpers over universes.                        *)
(*                                                                         *)
(* A universe is a sequence of feature records in exactly the shape the    *)
(* Rust harness deserialises (harness/src/universe.rs, `FeatureSpec`):     *)
(*   [name, tags, bg, path, scenarios, rules]                              *)
(*   rule     = [name, tags, bg, scenarios]                                *)
(*   scenario = [name, tags, steps]        steps/bg: Seq of step kinds     *)
(* Names are globally unique strings ("F1", "R1", "S3").                   *)
(*                                                                         *)
(* An event is a record with a fixed field set (so events can be compared  *)
(* and put into sets); unused fields hold "" / 0 / FALSE.  The field names *)
(* are those of the hook records emitted by src/verif.rs and of the        *)
(* harness projection (harness/src/evjson.rs).                             *)
(***************************************************************************)
EXTENDS Integers, Sequences, FiniteSets, TLC

Ev(t, f, r, s, k, h, i, err, cur, left, retr) ==
  [t |-> t, f |-> f, r |-> r, s |-> s, k |-> k, h |-> h, i |-> i,
   err |-> err, cur |-> cur, left |-> left, retr |-> retr]

EvStarted          == Ev("Started", "", "", "", "", "", 0, "", 0, 0, FALSE)
EvFinished         == Ev("Finished", "", "", "", "", "", 0, "", 0, 0, FALSE)
EvParsingFinished  == Ev("ParsingFinished", "", "", "", "", "", 0, "", 0, 0, FALSE)
EvParseErr(n)      == Ev("ParseErr", "", "", "", "", "", n, "", 0, 0, FALSE)
EvFeatS(f)         == Ev("FeatS", f, "", "", "", "", 0, "", 0, 0, FALSE)
EvFeatF(f)         == Ev("FeatF", f, "", "", "", "", 0, "", 0, 0, FALSE)
EvRuleS(f, r)      == Ev("RuleS", f, r, "", "", "", 0, "", 0, 0, FALSE)
EvRuleF(f, r)      == Ev("RuleF", f, r, "", "", "", 0, "", 0, 0, FALSE)
\* scenario-level event; rt = [retr, cur, left]
EvSc(f, r, s, rt, k, h, i, err) ==
  Ev("Sc", f, r, s, k, h, i, err, rt.cur, rt.left, rt.retr)

NoRetries        == [retr |-> FALSE, cur |-> 0, left |-> 0]
Retries(c, l)    == [retr |-> TRUE, cur |-> c, left |-> l]

IsSc(e)          == e.t = "Sc"
AttKey(e)        == <<e.s, e.retr, e.cur, e.left>>   \* (scenario, Option<Retries>)
IsAttStart(e)    == IsSc(e) /\ e.k = "Started"
IsAttFin(e)      == IsSc(e) /\ e.k = "Finished"
IsImmediate(e)   == e.t \in {"Started", "ParsingFinished", "ParseErr"}

(***************************************************************************)
(* Sequence helpers                                                        *)
(***************************************************************************)
Range(seq) == {seq[i] : i \in DOMAIN seq}

RECURSIVE Flatten(_)
Flatten(ss) == IF ss = <<>> THEN <<>> ELSE Head(ss) \o Flatten(Tail(ss))

IsPrefixOf(a, b) == Len(a) <= Len(b) /\ \A i \in 1..Len(a) : a[i] = b[i]

NoDup(seq) == \A i, j \in DOMAIN seq : i # j => seq[i] # seq[j]

RECURSIVE SumSeq(_)
SumSeq(seq) == IF seq = <<>> THEN 0 ELSE Head(seq) + SumSeq(Tail(seq))

(***************************************************************************)
(* Universe helpers                                                        *)
(***************************************************************************)
FeatNames(U)   == {U[i].name : i \in DOMAIN U}
FeatOf(U, f)   == CHOOSE x \in Range(U) : x.name = f
RuleNames(U, f) == {FeatOf(U, f).rules[i].name : i \in DOMAIN FeatOf(U, f).rules}
RuleOf(U, f, r) == CHOOSE x \in Range(FeatOf(U, f).rules) : x.name = r

\* All scenarios as records [f, r, name, tags, steps, spec]
ScenRecs(U) ==
  UNION { {[f |-> U[i].name, r |-> "", s |-> U[i].scenarios[j].name,
            spec |-> U[i].scenarios[j]] : j \in DOMAIN U[i].scenarios}
          \cup
          UNION { {[f |-> U[i].name, r |-> U[i].rules[q].name,
                    s |-> U[i].rules[q].scenarios[j].name,
                    spec |-> U[i].rules[q].scenarios[j]]
                   : j \in DOMAIN U[i].rules[q].scenarios}
                  : q \in DOMAIN U[i].rules }
          : i \in DOMAIN U }
ScenNames(U)    == {x.s : x \in ScenRecs(U)}
ScenRec(U, s)   == CHOOSE x \in ScenRecs(U) : x.s = s
ScenOfFeat(U, f) == {x.s : x \in {y \in ScenRecs(U) : y.f = f}}
ScenOfRule(U, f, r) == {x.s : x \in {y \in ScenRecs(U) : y.f = f /\ y.r = r}}

\* Full step list of a scenario: feature background, rule background, own
\* steps; each a record [kind, bg].
StepList(U, s) ==
  LET x == ScenRec(U, s)
      fb == FeatOf(U, x.f).bg
      rb == IF x.r = "" THEN <<>> ELSE RuleOf(U, x.f, x.r).bg
      mk(seq, b) == [i \in DOMAIN seq |-> [kind |-> seq[i], bg |-> b]]
  IN mk(fb, TRUE) \o mk(rb, TRUE) \o mk(x.spec.steps, FALSE)

HasTag(tags, t) == \E i \in DOMAIN tags : tags[i] = t
\* tags inherited by a scenario: own, rule's, feature's
InheritedTags(U, s) ==
  LET x == ScenRec(U, s) IN
  x.spec.tags \o (IF x.r = "" THEN <<>> ELSE RuleOf(U, x.f, x.r).tags)
              \o FeatOf(U, x.f).tags

=============================================================================
