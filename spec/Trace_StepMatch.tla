--------------------------- MODULE Trace_StepMatch ---------------------------
(***************************************************************************)
(* C17, impl -> spec: results of the real Collection::find for every       *)
(* (keyword, text) after registering the definitions in the recorded       *)
(* order, against Find over the SET of definitions.  Records are sorted so *)
(* that those with the same set are adjacent: their ambiguity candidate    *)
(* sequences must be identical ("deterministic order").                    *)
(***************************************************************************)
EXTENDS StepMatch, Json, IOUtils
Rec == ndJsonDeserialize(IOEnv.TRACE)
VARIABLE l
Init == l = 1

Defs(r) == Range(r.regs)
FindBad(r) ==
  {<<q.kw, q.t>> : q \in {x \in Range(r.finds) :
      LET e == Find(Defs(r), x.kw, x.t) IN
      ~( /\ x.res = e.res
         /\ (e.res # "one" \/ (x.re = e.re /\ x.loc = e.loc /\ x.whole = e.whole /\ x.groups = e.groups))
         /\ (e.res # "ambiguous" \/ (Range(x.cands) = e.cands /\ Len(x.cands) = Cardinality(e.cands))) )}}

OrderBad(r, prev) ==
  IF prev = <<>> \/ Defs(prev) # Defs(r) THEN {}
  ELSE {<<q.kw, q.t>> : q \in {x \in Range(r.finds) :
          \E y \in Range(prev.finds) : y.kw = x.kw /\ y.t = x.t /\ y.cands # x.cands}}

Next ==
  /\ l <= Len(Rec)
  /\ LET r == Rec[l]   prev == IF l = 1 THEN <<>> ELSE Rec[l - 1] IN
     PrintT(<<"VERDICT", ToJson([id |-> r.id, bad |-> FindBad(r), order |-> OrderBad(r, prev),
                                 table_ok |-> r.table_ok])>>)
  /\ l' = l + 1
Spec == Init /\ [][Next]_l
AllChecked ==
  IF TLCGet("stats").diameter = Len(Rec) + 1 THEN TRUE
  ELSE PrintT(<<"INCOMPLETE", TLCGet("stats").diameter, Len(Rec)>>) /\ FALSE
=============================================================================
