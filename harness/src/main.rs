//! Conformance harness binding the TLA+ specifications under /verif/spec to
//! the real cucumber crate (path dependency on /repo, built with
//! `--cfg cucumber_verif`).

mod drive;
mod evjson;
mod pure;
mod universe;
mod writers;
mod zoo;

use std::{
    env, fs,
    io::{BufRead as _, BufReader, Write as _},
};

use serde_json::{Value, json};

fn read_ndjson(path: &str) -> Vec<Value> {
    let f = fs::File::open(path)
        .unwrap_or_else(|e| panic!("cannot open {path}: {e}"));
    BufReader::new(f)
        .lines()
        .map(|l| l.unwrap())
        .filter(|l| !l.trim().is_empty())
        .map(|l| {
            serde_json::from_str(&l)
                .unwrap_or_else(|e| panic!("bad json line in {path}: {e}: {l}"))
        })
        .collect()
}

/// `drive <cases.ndjson> <trace.ndjson>`: one trace file, cases separated by
/// `reset` records.
fn cmd_drive(args: &[String]) {
    let cases = read_ndjson(&args[0]);
    let mut out = fs::File::create(&args[1]).unwrap();
    let mut hangs = 0;
    for c in cases {
        let case: drive::Case = serde_json::from_value(c.clone())
            .unwrap_or_else(|e| panic!("bad case: {e}: {c}"));
        // no `null`s: TLC's Json module cannot deserialise them
        let reset = json!({"seq":0,"t_us":0,"kind":"reset","case":case.id,
                           "expect":case.expect});
        writeln!(out, "{reset}").unwrap();
        let res = drive::run_case(&case);
        for l in &res.lines {
            writeln!(out, "{l}").unwrap();
        }
        if res.hung
            || res.lines.iter().any(|l| l.contains("\"kind\":\"stuck\""))
        {
            hangs += 1;
            if hangs >= 4 {
                eprintln!("harness: too many hung cases, stopping early (too many hung or stuck runs)");
                break;
            }
        }
    }
    out.flush().unwrap();
    // leaked hung threads keep spinning: leave without joining them
    std::process::exit(0);
}

/// `replay-normalize <in.ndjson> <out.ndjson>`: each input line is
/// `{"id", "universe", "stream"}`; each output line adds `outs`.
fn cmd_replay_normalize(args: &[String]) {
    let lines = read_ndjson(&args[0]);
    let mut out = fs::File::create(&args[1]).unwrap();
    let mut cache: Option<(Value, writers::Objects)> = None;
    for l in lines {
        let uni = l["universe"].clone();
        if cache.as_ref().is_none_or(|(u, _)| *u != uni) {
            let specs: Vec<universe::FeatureSpec> =
                serde_json::from_value(uni.clone()).unwrap();
            cache = Some((uni.clone(), writers::Objects::new(&specs)));
        }
        let objs = &cache.as_ref().unwrap().1;
        let stream = l["stream"].as_array().unwrap();
        let r = writers::replay_normalize(objs, stream);
        let rec = json!({"id": l["id"], "inp": stream, "outs": r["outs"],
                         "panic": r["panic"],
                         "ref": l.get("ref").cloned().unwrap_or(json!([]))});
        writeln!(out, "{rec}").unwrap();
    }
}

/// Generic replay loop: `f(objects, record) -> extra fields`.
fn replay_loop(
    args: &[String],
    f: impl Fn(&writers::Objects, &Value) -> Value,
) {
    let lines = read_ndjson(&args[0]);
    let mut out = fs::File::create(&args[1]).unwrap();
    let mut cache: Option<(Value, writers::Objects)> = None;
    for l in lines {
        let deco = l["opts"]["decorate"].as_str().unwrap_or("").to_owned();
        let twin = l["opts"]["twin_features"] == true;
        let same_steps = l["opts"]["same_steps"] == true;
        let uni = json!({"u": l["universe"], "deco": deco, "twin": twin,
                         "same_steps": same_steps});
        if cache.as_ref().is_none_or(|(u, _)| *u != uni) {
            let specs: Vec<universe::FeatureSpec> =
                serde_json::from_value(l["universe"].clone()).unwrap();
            cache = Some((
                uni.clone(),
                if same_steps {
                    writers::Objects::new_same_steps(&specs)
                } else if twin {
                    writers::Objects::new_twin_features(&specs)
                } else if !deco.is_empty() {
                    writers::Objects::new_decorated(&specs, deco == "cdata")
                } else {
                    writers::Objects::new(&specs)
                },
            ));
        }
        let objs = &cache.as_ref().unwrap().1;
        let mut rec = l.clone();
        if let (Some(m), Value::Object(x)) = (rec.as_object_mut(), f(objs, &l)) {
            for (k, v) in x {
                m.insert(k, v);
            }
        }
        writeln!(out, "{rec}").unwrap();
    }
}

fn main() {
    // The sub-command may also come in `VERIF_ARGS` (tab-separated), leaving the
    // process arguments empty: code under test that wrongly falls back to
    // parsing the process arguments then sees none (and runs with defaults)
    // instead of aborting the harness.
    let mut args: Vec<String> = env::args().skip(1).collect();
    if args.is_empty() {
        if let Ok(a) = env::var("VERIF_ARGS") {
            args = a.split('\t').map(str::to_owned).collect();
        }
    }
    let Some(cmd) = args.first() else {
        eprintln!("usage: verif-harness <drive|replay-normalize|...> ...");
        std::process::exit(2);
    };
    match cmd.as_str() {
        "drive" => cmd_drive(&args[1..]),
        "replay-normalize" => cmd_replay_normalize(&args[1..]),
        "replay-summarize" => replay_loop(&args[1..], |objs, l| {
            let pipelines: Vec<String> = l["pipelines"]
                .as_array()
                .map(|a| {
                    a.iter()
                        .filter_map(|x| x.as_str().map(str::to_owned))
                        .collect()
                })
                .unwrap_or_default();
            writers::replay_summarize(
                objs,
                l["stream"].as_array().unwrap(),
                &pipelines,
            )
        }),
        "pure-retry" => {
            let lines = read_ndjson(&args[1]);
            let mut out = fs::File::create(&args[2]).unwrap();
            for l in lines {
                let mut rec = l.clone();
                let r = pure::retry_vector(&l);
                rec["actual"] = r["actual"].clone();
                writeln!(out, "{rec}").unwrap();
            }
        }
        "pure-filter" => {
            let lines = read_ndjson(&args[1]);
            let mut out = fs::File::create(&args[2]).unwrap();
            for l in lines {
                let specs: Vec<universe::FeatureSpec> =
                    serde_json::from_value(l["universe"].clone()).unwrap();
                let mut rec = l.clone();
                let r = pure::filter_vector(&specs, &l);
                rec["received"] = r["received"].clone();
                rec["expr_text"] = r["expr_text"].clone();
                rec["started"] = r["started"].clone();
                writeln!(out, "{rec}").unwrap();
            }
        }
        "pure-stepmatch" => {
            let lines = read_ndjson(&args[1]);
            let mut out = fs::File::create(&args[2]).unwrap();
            for l in lines {
                let r = pure::stepmatch_vector(&l);
                // keep records small: the tables are constant
                let rec = json!({"id": l["id"], "regs": l["regs"],
                                 "finds": r["finds"], "table_ok": r["table_ok"]});
                writeln!(out, "{rec}").unwrap();
            }
        }
        "pure-outline" => {
            let lines = read_ndjson(&args[1]);
            let mut out = fs::File::create(&args[2]).unwrap();
            let tmp = std::path::PathBuf::from(&args[3]);
            fs::create_dir_all(&tmp).unwrap();
            for l in lines {
                let mut rec = l.clone();
                let r = pure::outline_vector(&l, &tmp);
                rec["actual"] = r["actual"].clone();
                rec["text"] = r["text"].clone();
                writeln!(out, "{rec}").unwrap();
            }
        }
        "zoo" => {
            let lines = read_ndjson(&args[1]);
            let mut out = fs::File::create(&args[2]).unwrap();
            for l in lines {
                let mut rec = l.clone();
                rec["results"] = zoo::dispatch(&l)["results"].clone();
                writeln!(out, "{rec}").unwrap();
            }
        }
        "replay-reporters" => replay_loop(&args[1..], |objs, l| {
            writers::replay_reporters(
                objs,
                l["stream"].as_array().unwrap(),
                &l["opts"],
            )
        }),
        "replay-comb" => replay_loop(&args[1..], |objs, l| {
            writers::replay_comb(objs, l["inp"].as_array().unwrap())
        }),
        other => {
            eprintln!("unknown subcommand {other}");
            std::process::exit(2);
        }
    }
}
