SPECIFICATION Spec
CONSTANTS
  Cfg <- Core2
  MaxFail = 1
  IdleYields = TRUE
  SerialExclusive = TRUE
INVARIANTS NoViolation SlotsInv
VIEW VIEW_NoStats
CHECK_DEADLOCK FALSE
