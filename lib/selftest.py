"""`./check selftest`: demonstrates that the specification is BOUND to the code.

For every engine a small batch of real recordings is produced and judged
(baseline: no violation except listed known findings); then single recorded
fields are corrupted or single records removed -- the kind of difference a
defect in cucumber-rs would produce in the recording -- and the TLA+ judge
must reject each of them under the expected property.  A corruption that is
accepted means the judge does not constrain that part of the recording
(vacuity), and selftest exits 1.  Nothing here touches evidence files.

Also runs MC_Runner with `-coverage 1` and fails if an action of Runner.tla
that the configurations are meant to reach was never taken."""
import copy
import json
import os
import re
import subprocess

import gen_cases
from common import (HARNESS_BIN, SPEC, WORK, ToolError, build_harness, harness_env, known_findings, log, read_ndjson,
                    require_ok, run_harness, seed, tlc, tlc_lines, write_ndjson)


def _known_sigs():
    return {f["signature"] for f in known_findings() if f.get("status") == "open"}


# ---------------------------------------------------------------------------
# runner traces
# ---------------------------------------------------------------------------

def _judge_runner(path, tag):
    t = tlc("Trace_Runner.tla", os.path.join(SPEC, "Trace_Runner.cfg"), workers=1,
            env={"TRACE": path}, timeout=1800, tag=tag, xss=True, heap="4g")
    require_ok(t, "Trace_Runner")
    return tlc_lines(t["out"], "CASE")


def _first(recs, pred, nth=0):
    """indices of the nth match of pred in every case (cases are separated by reset records)"""
    out = []
    k = -1
    for i, r in enumerate(recs):
        if r["kind"] == "reset":
            k = -1
            continue
        if pred(r):
            k += 1
            if k == nth:
                out.append(i)
    return out


def _is_sc(r, k):
    return r["kind"] == "ev" and r.get("t") == "Sc" and r.get("k") == k


def runner_corruptions():
    """name -> (expected property, function recs -> corrupted recs or None if not applicable)"""
    def drop(pred, nth=0):
        def f(recs):
            idx = set(_first(recs, pred, nth))
            return [r for i, r in enumerate(recs) if i not in idx] if idx else None
        return f

    def edit(pred, fn, nth=0):
        def f(recs):
            idx = set(_first(recs, pred, nth))
            if not idx:
                return None
            out = []
            for i, r in enumerate(recs):
                if i in idx:
                    r = copy.deepcopy(r)
                    fn(r)
                out.append(r)
            return out
        return f

    def swap_with_next_event(pred):
        def f(recs):
            idx = _first(recs, pred, 0)
            if not idx:
                return None
            out = list(recs)
            for i in idx:
                j = i + 1
                while j < len(out) and out[j]["kind"] != "ev":
                    j += 1
                if j < len(out) and out[j]["kind"] == "ev" and out[j].get("s") == out[i].get("s"):
                    out[i], out[j] = out[j], out[i]
            return out
        return f

    def dup(pred):
        def f(recs):
            idx = set(_first(recs, pred, 0))
            if not idx:
                return None
            out = []
            for i, r in enumerate(recs):
                out.append(r)
                if i in idx:
                    out.append(r)
            return out
        return f

    return {
        "verdict-flipped": ("C01", edit(lambda r: r["kind"] == "verdict",
                                        lambda r: (r.__setitem__("failed", not r["failed"]),
                                                   r.__setitem__("exit_failed", not r["exit_failed"])))),
        "run_and_exit-outcome-flipped": ("C01", edit(lambda r: r["kind"] == "verdict",
                                                     lambda r: r.__setitem__("exit_failed", not r["exit_failed"]))),
        "scenario-Finished-event-dropped": ("C02", drop(lambda r: _is_sc(r, "Finished"))),
        "step-result-before-its-Started": ("C02", swap_with_next_event(lambda r: _is_sc(r, "StepS"))),
        "step-Started-event-duplicated": ("C02", dup(lambda r: _is_sc(r, "StepS"))),
        "feature-Finished-dropped": ("C03", drop(lambda r: r["kind"] == "ev" and r.get("t") == "FeatF")),
        "rule-Started-dropped": ("C03", drop(lambda r: r["kind"] == "ev" and r.get("t") == "RuleS")),
        "run-Finished-dropped": ("C03", drop(lambda r: r["kind"] == "ev" and r.get("t") == "Finished")),
        "scenario-Started-of-second-attempt-dropped": (
            "C05", drop(lambda r: _is_sc(r, "Started") and r.get("cur", 0) == 1)),
        "retry-numbering-off-by-one": (
            "C05", edit(lambda r: _is_sc(r, "Started") and r.get("cur", 0) == 1,
                        lambda r: r.__setitem__("cur", 2))),
        "dispatch-over-the-limit": (
            "C06", edit(lambda r: r["kind"] == "dispatch" and r["slots"] >= 0,
                        lambda r: (r.__setitem__("n", r["n"] + r["slots"] + 1), r.__setitem__("slots", -3)))),
        "serial-attempt-begun-as-concurrent-companion": (
            "C07", edit(lambda r: r["kind"] == "get" and len(r["batch"]) == 1 and r["batch"][0]["serial"]
                        and r["qc"],
                        lambda r: r["batch"].append({"cur": r["qc"][0]["cur"], "id": r["qc"][0]["id"],
                                                     "s": r["qc"][0]["s"], "serial": False}))),
        "after-hook-callback-dropped": (
            "C09", drop(lambda r: r["kind"] == "cb" and r.get("point") == "after" and r.get("cb") == "enter")),
        "panic-hook-not-restored": ("C10", edit(lambda r: r["kind"] == "post",
                                                lambda r: r.__setitem__("hook_restored", False))),
        "panic-printed-through-the-process-hook": (
            "C10", edit(lambda r: r["kind"] == "post", lambda r: r.__setitem__("sentinel_calls", 1))),
        "feature-ingestion-record-dropped": ("C04", drop(lambda r: r["kind"] == "insert")),
        "all-events-of-one-scenario-dropped": (
            "C04", lambda recs: [r for r in recs if not (r["kind"] in ("ev", "cb", "begin") and r.get("s") == "S1"
                                                         and r.get("t", "Sc") == "Sc")]),
        "run-reported-hung": ("C04", edit(lambda r: r["kind"] == "post", lambda r: r.__setitem__("hung", True))),
    }


def selftest_runner():
    build_harness()
    # a varied batch: plain seeded cases, twin pairs and serial/retry cases
    cases = gen_cases.gen_cases(4242, 60)
    cin = os.path.join(WORK, "selftest_cases.ndjson")
    tout = os.path.join(WORK, "selftest_trace.ndjson")
    write_ndjson(cin, cases)
    r = subprocess.run([HARNESS_BIN], env=harness_env(["drive", cin, tout]), stdout=subprocess.PIPE,
                       stderr=subprocess.PIPE, text=True, timeout=1800)
    if r.returncode != 0:
        raise ToolError("harness drive failed: " + r.stderr[-1500:])
    recs = read_ndjson(tout)
    base = _judge_runner(tout, "selftest_base")
    known = _known_sigs()
    base_bad = [(c["case"], v) for c in base for v in c["viol"] if f"{v[0]}:{v[1]}" not in known]
    results = [{"corruption": "(none: baseline)", "records": len(recs), "cases": len(base),
                "unexpected_violations": base_bad, "ok": not base_bad}]
    base_viol = {c["case"]: {(v[0], v[1]) for v in c["viol"]} for c in base}
    for name, (prop, fn) in runner_corruptions().items():
        cor = fn(recs)
        if cor is None:
            results.append({"corruption": name, "expected": prop, "ok": False, "why": "not applicable to the batch"})
            continue
        p = os.path.join(WORK, "selftest_cor.ndjson")
        write_ndjson(p, cor)
        try:
            summ = _judge_runner(p, "selftest_cor")
            new = sorted({f"{v[0]}:{v[1]}" for c in summ for v in c["viol"]
                          if (v[0], v[1]) not in base_viol.get(c["case"], set())})
            rejected = any(x.startswith(prop + ":") for x in new)
        except ToolError as e:
            # a recording the judge cannot even read is rejected as well
            new, rejected = ["judge-error: " + str(e)[:200]], True
        results.append({"corruption": name, "expected": prop, "new_violations": new[:8], "ok": rejected})
        log(f"[selftest] runner/{name}: {'rejected' if rejected else 'ACCEPTED'} {new[:4]}")
    return results


# ---------------------------------------------------------------------------
# writer replays and pure vectors
# ---------------------------------------------------------------------------

def _judge(trace_tla, cfg, path, tag, key="viol"):
    r = tlc(trace_tla, os.path.join(SPEC, cfg), workers=1, env={"TRACE": path}, timeout=1800, tag=tag,
            xss=True, heap="4g")
    require_ok(r, trace_tla)
    return tlc_lines(r["out"], "VERDICT")


def _corrupt_file(src, dst, fn):
    recs = read_ndjson(src)
    n = 0
    out = []
    for r in recs:
        r2 = copy.deepcopy(r)
        if fn(r2):
            n += 1
        out.append(r2)
    write_ndjson(dst, out)
    return n


def _needs(path, what):
    if not os.path.exists(path):
        raise ToolError(f"selftest needs {path}: run `./check {what}` first")
    return path


def selftest_recordings():
    """Uses the recordings the last quick runs of C11..C18 left in .work (run them first)."""
    results = []
    cor = os.path.join(WORK, "selftest_cor2.ndjson")

    LIMIT = 400          # records per recording that are corrupted and re-judged
    trunc = {}
    basecache = {}

    def case(engine, name, src, tla, cfg, fn, flagged):
        if src not in trunc:
            t = os.path.join(WORK, "selftest_src_%d.ndjson" % len(trunc))
            write_ndjson(t, read_ndjson(src)[:LIMIT])
            trunc[src] = t
        src = trunc[src]
        n = _corrupt_file(src, cor, fn)
        if n == 0:
            results.append({"engine": engine, "corruption": name, "ok": False, "why": "nothing to corrupt"})
            return
        if src not in basecache:
            basecache[src] = {v["id"]: v for v in _judge(tla, cfg, src, "selftest_b")}
        base = basecache[src]
        vs = _judge(tla, cfg, cor, "selftest_c")
        rej = sum(1 for v in vs if flagged(v) and not flagged(base[v["id"]]))
        ok = rej > 0
        results.append({"engine": engine, "corruption": name, "records_corrupted": n, "newly_rejected": rej, "ok": ok})
        log(f"[selftest] {engine}/{name}: corrupted {n}, newly rejected {rej}")

    # C11 Normalize: what the real writer forwarded
    src = _needs(os.path.join(WORK, "c11_replay_out.ndjson"), "C11")

    def swap_outs(r):
        flat = [(i, j) for i, d in enumerate(r["outs"]) for j in range(len(d))]
        for (i, j), (i2, j2) in zip(flat, flat[1:]):
            a, b = r["outs"][i][j], r["outs"][i2][j2]
            if a != b and a["t"] == "Sc" and b["t"] == "Sc":
                r["outs"][i][j], r["outs"][i2][j2] = b, a
                return True
        return False

    def drop_out(r):
        for d in r["outs"]:
            if d:
                d.pop()
                return True
        return False
    case("C11", "two-forwarded-events-swapped", src, "Trace_Normalize.tla", "Trace_Normalize.cfg", swap_outs,
         lambda v: bool(v["viol"]))
    case("C11", "one-forwarded-event-lost", src, "Trace_Normalize.tla", "Trace_Normalize.cfg", drop_out,
         lambda v: bool(v["viol"]))

    # C12 / C01: counters and verdicts of the real Summarize
    src = _needs(os.path.join(WORK, "sum_out_0.ndjson"), "C12")

    def bump(field):
        def f(r):
            r["actual"][field] += 1
            return True
        return f

    def flip_verdict(r):
        r["verdicts"][0]["failed"] = not r["verdicts"][0]["failed"]
        return True

    def second_write(r):
        r["log"].append("write")
        return True
    for fld in ("passed_steps", "retried_steps", "hook_errors", "sc_failed", "sc_passed", "features"):
        case("C12", f"counter-{fld}-off-by-one", src, "Trace_Summarize.tla", "Trace_Summarize.cfg", bump(fld),
             lambda v: any(x[0] == "C12" for x in v["viol"]))
    case("C12", "summary-written-twice", src, "Trace_Summarize.tla", "Trace_Summarize.cfg", second_write,
         lambda v: any(x[0] == "C12" and x[1].startswith("summary") for x in v["viol"]))
    case("C01", "pipeline-verdict-flipped", src, "Trace_Summarize.tla", "Trace_Summarize.cfg", flip_verdict,
         lambda v: any(x[0] == "C01" for x in v["viol"]))

    def flip_exit(r):
        r["verdicts"][-1]["exit_failed"] = not r["verdicts"][-1]["exit_failed"]
        return True

    def text_off(r):
        if r["text"]["present"]:
            r["text"]["st_passed"] += 1
            return True
        return False
    case("C01", "run_and_exit-outcome-flipped", src, "Trace_Summarize.tla", "Trace_Summarize.cfg", flip_exit,
         lambda v: any(x[0] == "C01" and x[1].startswith("run_and_exit") for x in v["viol"]))
    case("C12", "summary-text-number-off-by-one", src, "Trace_Summarize.tla", "Trace_Summarize.cfg", text_off,
         lambda v: any(x[0] == "C12" and x[1].startswith("summary-text") for x in v["viol"]))

    # C13 combinators: what the leaves received
    src = _needs(os.path.join(WORK, "comb_out.ndjson"), "C13")

    def leaf_loses(nest, leaf):
        def f(r):
            lv = r["results"][nest]["leaves"][leaf]
            if lv:
                lv.pop(0)
                return True
            return False
        return f

    def stats_bump(nest):
        def f(r):
            r["results"][nest]["stats"]["failed"] += 1
            return True
        return f

    def unrewritten(r):
        ok = False
        for e in r["results"]["fos"]["leaves"][0]:
            if e["t"] == "Sc" and e["k"] == "StepF" and e["err"] == "notfound":
                e["k"], e["err"] = "StepSk", ""
                ok = True
        return ok
    for nest, leaf in (("tee", 1), ("or", 0), ("rep_failed", 0), ("tee_discard", 0)):
        case("C13", f"{nest}-leaf{leaf + 1}-loses-its-first-event", src, "Trace_Combinators.tla",
             "Trace_Combinators.cfg", leaf_loses(nest, leaf), lambda v: bool(v["bad"]))
    case("C13", "or-stats-not-the-sum", src, "Trace_Combinators.tla", "Trace_Combinators.cfg", stats_bump("or"),
         lambda v: bool(v["bad"]))
    case("C13", "fail_on_skipped-leaves-a-skipped-step", src, "Trace_Combinators.tla", "Trace_Combinators.cfg",
         unrewritten, lambda v: bool(v["bad"]))

    # C14 reporters: facts parsed back from the real reports
    src = _needs(os.path.join(WORK, "rep_parsed_0.ndjson"), "C14")

    def lose_fact(rep):
        def f(r):
            if r["facts"][rep]:
                r["facts"][rep].pop()
                return True
            return False
        return f

    def wrong_status(rep):
        def f(r):
            for x in r["facts"][rep]:
                if x[0] == "step" and x[3] == "passed":
                    x[3] = "failed"
                    return True
            return False
        return f

    def lose_message(rep):
        def f(r):
            for x in r["facts"][rep]:
                if x[4]:
                    x[4] = ""
                    return True
            return False
        return f

    def total_off(r):
        if r["info"]["libtest"]["suite"]["passed"] >= 0:
            r["info"]["libtest"]["suite"]["passed"] += 1
            return True
        return False
    for rep in ("basic", "libtest", "json", "junit"):
        case("C14", f"{rep}-report-loses-a-fact", src, "Trace_Reporters.tla", "Trace_U.cfg", lose_fact(rep),
             lambda v: bool(v["bad"]))
        case("C14", f"{rep}-report-states-a-wrong-status", src, "Trace_Reporters.tla", "Trace_U.cfg",
             wrong_status(rep), lambda v: bool(v["bad"]))
    for rep in ("basic", "libtest", "json", "junit"):
        case("C14", f"{rep}-report-loses-a-failure-message", src, "Trace_Reporters.tla", "Trace_U.cfg",
             lose_message(rep), lambda v: bool(v["bad"]))
    case("C14", "libtest-suite-total-off-by-one", src, "Trace_Reporters.tla", "Trace_U.cfg", total_off,
         lambda v: bool(v["bad"]))

    def lt_info(key):
        def f(r):
            r["info"]["libtest"][key] = 1
            return True
        return f
    case("C14", "libtest-two-features-under-one-prefix", src, "Trace_Reporters.tla", "Trace_U.cfg",
         lt_info("feature_clash"),
         lambda v: any(b[1] == "scenarios-of-different-features-listed-under-one-feature" for b in v["bad"]))
    case("C14", "libtest-started-name-repeated", src, "Trace_Reporters.tla", "Trace_U.cfg", lt_info("dup_started"),
         lambda v: any(b[1] == "two-started-lines-with-the-same-name" for b in v["bad"]))

    # C18 retry options
    src = _needs(os.path.join(WORK, "c18_out.ndjson"), "C18")

    def retries_off(r):
        r["actual"]["retries"] += 1
        return True

    def limit_off(r):
        r["actual"]["limit"] += 1
        return True
    case("C18", "resolved-retries-off-by-one", src, "Trace_RetryOpts.tla", "Trace_Plain.cfg", retries_off,
         lambda v: bool(v["bad"]))
    case("C18", "resolved-concurrency-off-by-one", src, "Trace_RetryOpts.tla", "Trace_Plain.cfg", limit_off,
         lambda v: bool(v["bad"]))

    # C15 filter
    src = _needs(os.path.join(WORK, "c15_out.ndjson"), "C15")

    def lose_scenario(r):
        for f in r["received"]:
            if f["scenarios"]:
                f["scenarios"].pop()
                return True
        return False
    case("C15", "a-kept-scenario-is-lost", src, "Trace_Filter.tla", "Trace_U.cfg", lose_scenario,
         lambda v: bool(v["bad"]))

    # C16 outline expansion
    src = _needs(os.path.join(WORK, "c16_out.ndjson"), "C16")

    def lose_row(r):
        if len(r["actual"]["scenarios"]) > 1:
            r["actual"]["scenarios"].pop()
            return True
        return False

    def same_position(r):
        sc = r["actual"]["scenarios"]
        if len(sc) > 1:
            sc[1]["line"], sc[1]["col"] = sc[0]["line"], sc[0]["col"]
            return True
        return False
    case("C16", "one-expanded-scenario-lost", src, "Trace_Outline.tla", "Trace_Plain.cfg", lose_row,
         lambda v: bool(v["bad"]))
    case("C16", "two-expanded-scenarios-share-a-position", src, "Trace_Outline.tla", "Trace_Plain.cfg",
         same_position, lambda v: bool(v["bad"]))

    # C17 step matching
    src = _needs(os.path.join(WORK, "c17_out.ndjson"), "C17")

    def wrong_find(r):
        for f in r["finds"]:
            if f["res"] == "one":
                f["res"] = "none"
                return True
        return False
    case("C17", "a-unique-match-reported-as-no-match", src, "Trace_StepMatch.tla", "Trace_Plain.cfg", wrong_find,
         lambda v: bool(v["bad"]))
    return results


# ---------------------------------------------------------------------------
# vacuity of the exhaustive runner model: every action must have been taken
# ---------------------------------------------------------------------------

EXPECT_ACTIONS = ["ParserStep", "Insert", "Tick", "Select", "Dispatch", "Step", "Completed", "Drain", "Idle",
                  "Finish"]


def runner_coverage():
    import engine_runner_mc
    out = []
    for name in ("core2", "retry2", "ff2"):
        cfg = os.path.join(WORK, f"MC_Runner_{name}.cfg")
        if not os.path.exists(cfg):
            engine_runner_mc.model_check("quick")
        r = tlc("MC_Runner.tla", cfg, workers=8, timeout=1500, tag="selfcov_" + name, coverage=True)
        require_ok(r, "MC_Runner coverage " + name)
        acts = {}
        for m in re.finditer(r"<(\w+) line \d+, col \d+ to line \d+, col \d+ of module Runner>: (\d+):(\d+)", r["out"]):
            a = acts.setdefault(m.group(1), [0, 0])
            a[0] += int(m.group(2))
            a[1] += int(m.group(3))
        never = sorted(a for a, (d, t) in acts.items() if t == 0)
        out.append({"config": name, "actions": {a: {"distinct": d, "taken": t} for a, (d, t) in acts.items()},
                    "never_taken": never, "ok": bool(acts)})
        log(f"[selftest] MC_Runner {name}: {len(acts)} actions, never taken: {never}")
    return out


def run():
    res = {"runner_trace_corruptions": selftest_runner(),
           "recording_corruptions": selftest_recordings(),
           "runner_model_action_coverage": runner_coverage()}
    # an action never taken in ANY configuration is a vacuity alarm
    seen = {}
    for c in res["runner_model_action_coverage"]:
        for a, v in c["actions"].items():
            seen[a] = seen.get(a, 0) + v["taken"]
    res["actions_never_taken_in_any_config"] = sorted(a for a, n in seen.items() if n == 0)
    bad = [x for x in res["runner_trace_corruptions"] + res["recording_corruptions"] if not x["ok"]]
    bad += [{"never_taken": a} for a in res["actions_never_taken_in_any_config"]]
    res["ok"] = not bad
    with open(os.path.join(os.path.dirname(WORK), "selftest_report.json"), "w") as f:
        json.dump(res, f, indent=1, sort_keys=True)
    for b in bad:
        log("[selftest] FAILED:", json.dumps(b)[:400])
    print(f"selftest: {len(res['runner_trace_corruptions']) - 1} trace corruptions, "
          f"{len(res['recording_corruptions'])} recording corruptions, "
          f"{len(seen)} model actions; {'ok' if not bad else str(len(bad)) + ' FAILED'}")
    return 0 if not bad else 1
