"""Seeded generator of driven-run cases for the runner engine.

A case = feature shapes + parser script + configuration + outcome script +
schedule policy, together with `expect`: the static facts the TLA+ monitor
(RunnerObs.tla) needs about the case (structure, classification, budgets).
Only scenario/rule/feature-level `@retry(N)[.after(Dms)]` tags are used here,
so the expected budget is the nearest tag's N (C18 proper is decided by
RetryOpts vectors)."""
import random

STEP_KINDS = ["run"] * 8 + ["nomatch", "ambig"]
PANICS = ["panic_string", "panic_str", "panic_custom"]
# `_sync`: the hook / step function panics in its own body, before returning its future
PANICS_CB = PANICS + PANICS + ["panic_string_sync", "panic_custom_sync"]
PIPELINES = ["sn", "lt", "tee", "orl", "orr", "snb", "fos:sn", "rep:sn", "fos:rep:sn", "fos:lt",
             "rep:tee", "fos:tee", "rep:lt", "fos:orl", "asn", "fos:asn", "tdl", "fos:tdl"]


def _retry_tag(rng, delay_ok):
    n = rng.choice([1, 1, 2])
    if delay_ok and rng.random() < 0.35:
        d = rng.choice([12, 20])
        return f"retry({n}).after({d}ms)", n, d * 1000
    return f"retry({n})", n, 0


def parse_retry(tags):
    for t in tags:
        if t.startswith("retry("):
            n = int(t[len("retry("):t.index(")")])
            d = 0
            if ".after(" in t:
                d = int(t[t.index(".after(") + 7:-3]) * 1000
            return n, d
    return None


def resolve_retry(cfg, s, r, f):
    """(budget, delay_us) of a scenario: the nearest `@retry` tag, completed by / replaced with the
    CLI-or-builder values (RetryOpts!Resolve without tag filters; budget -1 = no retry options)."""
    tag = None
    for tags in (s["tags"], r["tags"] if r else [], f["tags"]):
        for t in tags:
            if t.startswith("retry"):
                n = int(t[len("retry("):t.index(")")]) if t.startswith("retry(") else None
                d = int(t[t.index(".after(") + 7:-3]) * 1000 if ".after(" in t else None
                tag = (n, d)
                break
        if tag:
            break
    retry = cfg.get("retry_cli") if cfg.get("retry_cli") is not None else cfg.get("retry_builder")
    after = cfg.get("retry_after_cli_ms") if cfg.get("retry_after_cli_ms") is not None \
        else cfg.get("retry_after_builder_ms")
    if tag is None and retry is None and after is None:
        return -1, 0
    n = tag[0] if tag and tag[0] is not None else (retry if retry is not None else 1)
    d = tag[1] if tag and tag[1] is not None else (after * 1000 if after is not None else 0)
    return n, d


def gen_case(rng, cid, profile="mixed"):
    nf = rng.choice([1, 1, 2, 2, 3])
    sid = rid = 0
    feats = []
    serial_bias = 0.35 if profile == "serial" else 0.12
    retry_bias = 0.5 if profile in ("serial", "retry") else 0.3
    fail_bias = {"failfast": 0.12, "retry": 0.25, "serial": 0.18, "clean": 0.0}.get(profile, 0.15)
    delays = profile in ("serial", "retry", "mixed")
    for fi in range(1, nf + 1):
        f = {"name": f"F{fi}", "tags": [], "bg": [], "path": True, "scenarios": [], "rules": []}
        if rng.random() < 0.3:
            f["bg"] = [rng.choice(["run", "run", "run", "nomatch"])]
        if rng.random() < 0.08:
            f["tags"].append("serial")
        if rng.random() < 0.1:
            f["tags"].append(_retry_tag(rng, False)[0])
        if rng.random() < 0.1:
            f["tags"].append("allow.skipped")

        def mk_scen():
            nonlocal sid
            sid += 1
            s = {"name": f"S{sid}", "tags": [], "steps": []}
            for _ in range(rng.choice([0, 1, 1, 2, 2, 3])):
                s["steps"].append(rng.choice(STEP_KINDS))
            if rng.random() < serial_bias:
                s["tags"].append("serial")
            if rng.random() < retry_bias:
                s["tags"].append(_retry_tag(rng, delays)[0])
            if rng.random() < 0.1:
                s["tags"].append("allow.skipped")
            return s
        for _ in range(rng.choice([0, 1, 1, 2])):
            f["scenarios"].append(mk_scen())
        for _ in range(rng.choice([0, 0, 1, 1, 2])):
            rid += 1
            r = {"name": f"R{rid}", "tags": [], "bg": [], "scenarios": []}
            if rng.random() < 0.3:
                r["bg"] = ["run"]
            if rng.random() < 0.08:
                r["tags"].append("serial")
            if rng.random() < 0.1:
                r["tags"].append(_retry_tag(rng, False)[0])
            for _ in range(rng.choice([0, 1, 1, 2])):
                r["scenarios"].append(mk_scen())
            f["rules"].append(r)
        feats.append(f)

    for f in feats:
        # Quirks of the `gherkin` crate's grammar: an empty rule swallows the
        # rule after it, an empty scenario swallows whatever follows it.
        for r in f["rules"][:-1]:
            if not r["scenarios"]:
                sid += 1
                r["scenarios"].append({"name": f"S{sid}", "tags": [], "steps": ["run"]})
        for s in f["scenarios"]:
            if not s["steps"] and (s is not f["scenarios"][-1] or f["rules"]):
                s["steps"].append("run")
        for r in f["rules"]:
            for s in r["scenarios"]:
                if not s["steps"] and (s is not r["scenarios"][-1] or r is not f["rules"][-1]):
                    s["steps"].append("run")

    # now and then two scenarios of one feature / rule share their displayed name, as the rows of
    # an outline do (their ids then travel in a tag; the harness identifies scenarios by id)
    if rng.random() < 0.2:
        groups = [f["scenarios"] for f in feats] + [r["scenarios"] for f in feats for r in f["rules"]]
        groups = [g for g in groups if len(g) >= 2]
        if groups:
            g = rng.choice(groups)
            a, b = rng.sample(range(len(g)), 2)
            g[a]["display"] = g[b]["display"] = "Twin of " + g[min(a, b)]["name"]

    cfg = {"before": rng.random() < 0.6, "after": rng.random() < 0.6}
    cli = rng.choice([None, None, 1, 2, 3])
    bld = rng.choice(["default", "default", "none", 1, 2, 3])
    if profile == "limits":
        cli = rng.choice([None, 1, 2])
        bld = rng.choice([1, 2, 3])
    cfg["conc_cli"] = cli
    cfg["conc_builder"] = bld
    limit = cli if cli is not None else (64 if bld == "default" else (-1 if bld == "none" else bld))
    ff_cli = ff_b = False
    if profile == "failfast" or rng.random() < 0.15:
        ff_cli, ff_b = rng.choice([(True, False), (False, True), (True, True)])
    cfg["fail_fast_cli"], cfg["fail_fast_builder"] = ff_cli, ff_b
    fail_fast = ff_cli or ff_b
    # custom classifier: sometimes classify by name list instead of tags
    serial_custom = None
    if rng.random() < 0.1:
        names = [s["name"] for f in feats for s in f["scenarios"]] + \
                [s["name"] for f in feats for r in f["rules"] for s in r["scenarios"]]
        serial_custom = [n for n in names if rng.random() < 0.3]
        cfg["serial_custom"] = serial_custom

    # run-wide retry options from the CLI and / or the builder (the CLI wins), now and then
    if profile != "clean" and rng.random() < (0.3 if profile == "retry" else 0.12):
        kind = rng.choice(["cli", "builder", "both", "after_only"])
        if kind in ("cli", "both"):
            cfg["retry_cli"] = rng.choice([1, 2])
        if kind in ("builder", "both"):
            cfg["retry_builder"] = rng.choice([1, 2, 3])
        if kind == "after_only" or (delays and rng.random() < 0.3):
            cfg[rng.choice(["retry_after_cli_ms", "retry_after_builder_ms"])] = rng.choice([12, 20])
    expect = {"limit": limit, "fail_fast": fail_fast, "before": cfg["before"], "after": cfg["after"],
              "twin": False, "feats": {}, "rules": {}, "scen": {}, "parser": []}
    outcomes = {}
    any_delay = 0
    for f in feats:
        allsc = [(None, s) for s in f["scenarios"]] + [(r, s) for r in f["rules"] for s in r["scenarios"]]
        expect["feats"][f["name"]] = {"nscen": len(allsc), "nrules": len(f["rules"]),
                                      "nsteps": sum(len(s["steps"]) for _, s in allsc),
                                      "order": [s["name"] for _, s in allsc]}
        for r in f["rules"]:
            expect["rules"][r["name"]] = {"f": f["name"], "nscen": len(r["scenarios"])}
        for r, s in allsc:
            inherited = s["tags"] + (r["tags"] if r else []) + f["tags"]
            budget, delay = resolve_retry(cfg, s, r, f)
            any_delay = max(any_delay, delay)
            steps = []
            for i, k in enumerate(f["bg"]):
                steps.append({"text": f"{f['name']} bg {i+1} {k}", "label": f"{f['name']} bg {i+1}", "bg": True, "kind": k})
            if r:
                for i, k in enumerate(r["bg"]):
                    steps.append({"text": f"{r['name']} bg {i+1} {k}", "label": f"{r['name']} bg {i+1}", "bg": True, "kind": k})
            for i, k in enumerate(s["steps"]):
                steps.append({"text": f"{s['name']} step {i+1} {k}", "label": f"{s['name']} step {i+1}", "bg": False, "kind": k})
            serial = (s["name"] in serial_custom) if serial_custom is not None else ("serial" in inherited)
            expect["scen"][s["name"]] = {"idx": len(expect["scen"]) + 1,
                                         "f": f["name"], "r": r["name"] if r else "", "serial": serial,
                                         "budget": budget, "delay_us": delay,
                                         "allow_skipped": "allow.skipped" in inherited, "steps": steps}
            # outcome script per attempt
            atts = []
            for _ in range(max(budget, 0) + 1):
                o = {"steps": {}}
                if rng.random() < fail_bias * 0.3:
                    o["world"] = rng.choice(["err"] + PANICS)
                if cfg["before"] and rng.random() < fail_bias * 0.5:
                    o["before"] = rng.choice(PANICS_CB)
                if cfg["after"] and rng.random() < fail_bias * 0.5:
                    o["after"] = rng.choice(PANICS_CB)
                for st in steps:
                    if st["kind"] == "run" and rng.random() < fail_bias:
                        o["steps"][st["label"]] = rng.choice(PANICS_CB)
                atts.append(o)
            outcomes[s["name"]] = atts

    parser = []
    for i, f in enumerate(feats):
        lazy = profile == "lazy" or rng.random() < 0.25
        parser.append({"item": "feat", "idx": i, "pending": rng.choice([1, 1, 2]) if lazy else 0})
        expect["parser"].append({"item": "feat", "f": f["name"]})
        if rng.random() < (0.25 if profile in ("failfast", "lazy") else 0.1) and fail_bias > 0:
            parser.append({"item": "err", "pending": rng.choice([0, 0, 1])})
            expect["parser"].append({"item": "err", "f": ""})
    if rng.random() < 0.1 and parser:
        # errors may also come first
        if fail_bias > 0:
            parser.insert(0, {"item": "err", "pending": 0})
            expect["parser"].insert(0, {"item": "err", "f": ""})

    sched = {"seed": rng.randrange(1 << 30), "sleep_pct": 0, "sleep_ms": 0,
             "multi_pct": rng.choice([0, 0, 30, 60])}
    if any_delay:
        sched["sleep_pct"] = rng.choice([25, 40])
        sched["sleep_ms"] = any_delay // 1000 + 3
        # pauses shorter than, about half of, and longer than the delay: retries of different
        # scenarios become ready at different moments
        sched["sleep_ms_choices"] = [any_delay // 2000 + 1, any_delay // 1000 + 3, 4]
    npl = rng.choice([2, 3])
    pipelines = rng.sample(PIPELINES, npl)
    return {"id": cid, "features": feats, "parser": parser, "cfg": cfg, "outcomes": outcomes,
            "schedule": sched, "expect": expect, "pipelines": pipelines}


def rebuild_expect(c, rng):
    """Recomputes `expect` (structure part) after the features of a case were edited; outcome
    scripts of scenarios that are new default to all-pass."""
    cfg = c["cfg"]
    old = c["expect"]
    serial_custom = cfg.get("serial_custom")
    expect = {"limit": old["limit"], "fail_fast": old["fail_fast"], "before": old["before"],
              "after": old["after"], "twin": False, "feats": {}, "rules": {}, "scen": {},
              "parser": old["parser"]}
    for f in c["features"]:
        allsc = [(None, s) for s in f["scenarios"]] + [(r, s) for r in f["rules"] for s in r["scenarios"]]
        expect["feats"][f["name"]] = {"nscen": len(allsc), "nrules": len(f["rules"]),
                                      "nsteps": sum(len(s["steps"]) for _, s in allsc),
                                      "order": [s["name"] for _, s in allsc]}
        for r in f["rules"]:
            expect["rules"][r["name"]] = {"f": f["name"], "nscen": len(r["scenarios"])}
        for r, s in allsc:
            inherited = s["tags"] + (r["tags"] if r else []) + f["tags"]
            budget, delay = resolve_retry(cfg, s, r, f)
            steps = []
            for i, k in enumerate(f["bg"]):
                steps.append({"text": f"{f['name']} bg {i+1} {k}", "label": f"{f['name']} bg {i+1}", "bg": True, "kind": k})
            if r:
                for i, k in enumerate(r["bg"]):
                    steps.append({"text": f"{r['name']} bg {i+1} {k}", "label": f"{r['name']} bg {i+1}", "bg": True, "kind": k})
            for i, k in enumerate(s["steps"]):
                steps.append({"text": f"{s['name']} step {i+1} {k}", "label": f"{s['name']} step {i+1}", "bg": False, "kind": k})
            serial = (s["name"] in serial_custom) if serial_custom is not None else ("serial" in inherited)
            expect["scen"][s["name"]] = {"idx": len(expect["scen"]) + 1,
                                         "f": f["name"], "r": r["name"] if r else "", "serial": serial,
                                         "budget": budget, "delay_us": delay,
                                         "allow_skipped": "allow.skipped" in inherited, "steps": steps}
            c["outcomes"].setdefault(s["name"], [])
    c["expect"] = expect
    return c


def serial_retry_case(rng, cid):
    """Two serial scenarios whose delayed retries are queued together, next to running
    concurrent scenarios (late-ready serial entries at different queue positions)."""
    c = gen_case(rng, cid, "serial")
    d = rng.choice([12, 20])
    f = c["features"][0]
    base = max([int(s[1:]) for s in c["expect"]["scen"]] + [0])
    new = []
    for j in range(2):
        # the one that fails first gets the shorter delay: it is ready (behind the head of the queue)
        # for at least d/2 ms while the one that failed last (the head) is still delayed
        new.append({"name": f"S{base + 1 + j}", "tags": ["serial", f"retry(1).after({d // 2 if j == 0 else d}ms)"],
                    "steps": ["run"]})
    for j in range(rng.choice([2, 3])):
        new.append({"name": f"S{base + 3 + j}", "tags": [], "steps": ["run"] * rng.choice([2, 3])})
    f["scenarios"] = new + f["scenarios"]
    c2 = rebuild_expect(c, rng)
    for j in range(2):
        name = f"S{base + 1 + j}"
        c2["outcomes"][name] = [{"steps": {f"{name} step 1": "panic_string"}}, {"steps": {}}]
    c2["cfg"]["conc_cli"] = None
    c2["cfg"]["conc_builder"] = rng.choice(["default", "none", 2, 3])
    lim = c2["cfg"]["conc_builder"]
    c2["expect"]["limit"] = 64 if lim == "default" else (-1 if lim == "none" else lim)
    c2["schedule"]["sleep_pct"] = 50
    c2["schedule"]["sleep_ms"] = d + 3
    c2["schedule"]["sleep_ms_choices"] = [d // 2 + 1, d // 3, d + 3, 3]
    return c2


def retry_overlap_case(rng, cid):
    """Several concurrent one- or two-step scenarios with immediate retries whose last callbacks
    complete in the SAME executor turn (all waiting gates are opened at once): a retry re-queued
    too early would be dispatched while the failed attempt is still winding down."""
    c = gen_case(rng, cid, "clean")
    f = c["features"][0]
    base = max([int(s[1:]) for s in c["expect"]["scen"]] + [0])
    new = []
    nsteps = rng.choice([1, 2])
    for j in range(rng.choice([3, 4])):
        new.append({"name": f"S{base + 1 + j}", "tags": ["retry(1)"] if j < 2 else [],
                    "steps": ["run"] * nsteps})
    # the passing scenarios first: within one executor turn they are polled (and complete) before
    # the failing ones resume
    f["scenarios"] = new[2:] + new[:2] + f["scenarios"]
    c2 = rebuild_expect(c, rng)
    for j in range(2):
        name = f"S{base + 1 + j}"
        last = len(new[j]["steps"])
        c2["outcomes"][name] = [{"steps": {f"{name} step {last}": rng.choice(PANICS)}}, {"steps": {}}]
    c2["cfg"]["conc_cli"] = None
    c2["cfg"]["conc_builder"] = rng.choice(["default", 3, 4])
    lim = c2["cfg"]["conc_builder"]
    c2["expect"]["limit"] = 64 if lim == "default" else lim
    c2["cfg"]["fail_fast_cli"] = c2["cfg"]["fail_fast_builder"] = False
    c2["expect"]["fail_fast"] = False
    c2["schedule"]["multi_pct"] = 100
    return c2


def twin_pair(rng, cid):
    """A failure-free case and its fail-fast twin (C08, last sentence)."""
    a = gen_case(rng, cid + "a", "clean")
    a["cfg"]["fail_fast_cli"] = a["cfg"]["fail_fast_builder"] = False
    a["expect"]["fail_fast"] = False
    # no ambiguous steps either (they fail)
    for f in a["features"]:
        for s in f["scenarios"] + [s for r in f["rules"] for s in r["scenarios"]]:
            s["steps"] = [k if k != "ambig" else "run" for k in s["steps"]]
    for sc in a["expect"]["scen"].values():
        for st in sc["steps"]:
            if st["kind"] == "ambig":
                st["kind"] = "run"
                st["text"] = st["text"].rsplit(" ", 1)[0] + " run"
    import copy
    b = copy.deepcopy(a)
    b["id"] = cid + "b"
    b["cfg"]["fail_fast_cli"] = True
    b["expect"]["fail_fast"] = True
    b["expect"]["twin"] = True
    b["schedule"]["seed"] = rng.randrange(1 << 30)
    return [a, b]


def gen_cases(seed, n, profiles=("mixed", "serial", "retry", "failfast", "lazy", "limits")):
    rng = random.Random(seed)
    cases = []
    i = 0
    while len(cases) < n:
        i += 1
        if i % 9 == 0:
            cases.extend(twin_pair(rng, f"c{i}"))
        elif i % 11 == 0 or i % 7 == 0:
            # (the windows these cases aim at are a few executor turns wide: many instances)
            cases.append(serial_retry_case(rng, f"c{i}"))
        elif i % 13 == 0:
            cases.append(retry_overlap_case(rng, f"c{i}"))
        else:
            cases.append(gen_case(rng, f"c{i}", profiles[i % len(profiles)]))
    return cases
