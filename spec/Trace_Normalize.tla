--------------------------- MODULE Trace_Normalize ---------------------------
(***************************************************************************)
(* C11, impl -> spec direction: every (input event, forwarded delta)       *)
(* history recorded from the REAL writer::Normalize (harness               *)
(* `replay-normalize`) is judged by the property-level monitor of          *)
(* Normalize.tla -- the same operator MC_Normalize checks on the model.    *)
(* One record per history; one VERDICT line per record.                    *)
(***************************************************************************)
EXTENDS Normalize, Json, IOUtils, TLC

Rec == ndJsonDeserialize(IOEnv.TRACE)

VARIABLE l
Init == l = 1

Next ==
  /\ l <= Len(Rec)
  /\ LET r == Rec[l]
         m == MonEnd(MonRun(MonInit, r.inp, r.outs))
     IN PrintT(<<"VERDICT", ToJson([id |-> r.id, n |-> Len(r.inp),
                                    panic |-> r.panic,
                                    viol |-> m.viol])>>)
  /\ l' = l + 1

Spec == Init /\ [][Next]_l

AllChecked ==
  IF TLCGet("stats").diameter = Len(Rec) + 1 THEN TRUE
  ELSE PrintT(<<"INCOMPLETE", TLCGet("stats").diameter, Len(Rec)>>) /\ FALSE
=============================================================================
