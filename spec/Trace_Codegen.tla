---------------------------- MODULE Trace_Codegen ----------------------------
(* C19, impl -> spec: real dispatch of every query against Dispatch. *)
EXTENDS Codegen, Json, IOUtils
Rec == ndJsonDeserialize(IOEnv.TRACE)
VARIABLE l
Init == l = 1
Bad(r) ==
  UNION {{[kw |-> q.kw, text |-> q.text, got |-> g.res, call |-> g.call, want |-> Dispatch(q.kw, q.text)] :
            g \in {z \in Range(r.results) : z.id = q.id /\
                     (z.res # Dispatch(q.kw, q.text).res
                      \/ (z.res = "invoked" /\ z.call # Dispatch(q.kw, q.text).call))}}
         : q \in Range(r.queries)}
Next ==
  /\ l <= Len(Rec)
  /\ PrintT(<<"VERDICT", ToJson([id |-> Rec[l].id, bad |-> Bad(Rec[l])])>>)
  /\ l' = l + 1
Spec == Init /\ [][Next]_l
AllChecked ==
  IF TLCGet("stats").diameter = Len(Rec) + 1 THEN TRUE
  ELSE PrintT(<<"INCOMPLETE", TLCGet("stats").diameter, Len(Rec)>>) /\ FALSE
=============================================================================
