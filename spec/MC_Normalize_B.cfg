SPECIFICATION Spec
CONSTANTS
  U <- UB
  Fails <- Fails1
  Body = 0
  MaxErr = 0
  EarlyClose = FALSE
  FreeImm = FALSE
INVARIANTS NoViolation NoPanic EndOK QueueDrained
CHECK_DEADLOCK FALSE
