------------------------------- MODULE Filter -------------------------------
(***************************************************************************)
(* C15: which scenarios Cucumber::filter_run hands to the runner           *)
(* (src/cucumber.rs) and how tag expressions evaluate (src/tag.rs).        *)
(*                                                                         *)
(* Expressions are trees: [op |-> "tag", t], [op |-> "not", a],            *)
(* [op |-> "and", a, b], [op |-> "or", a, b].  A name regex is abstracted  *)
(* to the set of scenario names it matches, the user closure to the set of *)
(* names it accepts.                                                       *)
(***************************************************************************)
EXTENDS Univ

Tag(t) == [op |-> "tag", t |-> t]
Not(a) == [op |-> "not", a |-> a]
And(a, b) == [op |-> "and", a |-> a, b |-> b]
Or(a, b) == [op |-> "or", a |-> a, b |-> b]

RECURSIVE Eval(_, _)
Eval(e, tags) ==
  CASE e.op = "tag" -> e.t \in tags
    [] e.op = "not" -> ~Eval(e.a, tags)
    [] e.op = "and" -> Eval(e.a, tags) /\ Eval(e.b, tags)
    [] e.op = "or"  -> Eval(e.a, tags) \/ Eval(e.b, tags)

\* v = [useRe, reSet, useTags, expr, closure, dup]
\* dup: some scenarios of one feature / rule share their NAME (as the rows of an outline do);
\* scenario ids stay unique (the harness marks every scenario with a tag `id_<S>`), the name
\* regex sees the displayed name
Disp(v, s) == IF ~v.dup THEN s
              ELSE CASE s = "S2" -> "S1" [] s = "S4" -> "S3" [] s = "S7" -> "S6" [] OTHER -> s
Accept(v, s) ==
  IF v.useRe THEN Disp(v, s) \in v.reSet
  ELSE IF v.useTags THEN Eval(v.expr, Range(InheritedTags(U, s)))
  ELSE s \in v.closure

\* what the runner must receive: per feature its accepted scenarios in order,
\* rules kept (even when they become empty), background and tags untouched
Keep(v, scs) == SelectSeq([i \in DOMAIN scs |-> scs[i].name], LAMBDA n : Accept(v, n))
Filtered(v) ==
  [i \in DOMAIN U |->
     [name |-> U[i].name, tags |-> U[i].tags, nbg |-> Len(U[i].bg),
      scenarios |-> Keep(v, U[i].scenarios),
      rules |-> [j \in DOMAIN U[i].rules |->
                   [name |-> U[i].rules[j].name, tags |-> U[i].rules[j].tags,
                    nbg |-> Len(U[i].rules[j].bg),
                    scenarios |-> Keep(v, U[i].rules[j].scenarios)]]]]

\* the scenarios a run starts (through runner::Basic, hooks added with the Cucumber builder after
\* the CLI options were given)
Accepted(v) == {s \in ScenNames(U) : Accept(v, s)}

\* ---- laws of the evaluation, checked by TLC over all expressions of depth <= 2 ----
TagNames == {"a", "b", "c"}
Depth0 == {Tag(t) : t \in TagNames}
Depth1 == Depth0 \cup {Not(x) : x \in Depth0}
           \cup {And(x, y) : x \in Depth0, y \in Depth0} \cup {Or(x, y) : x \in Depth0, y \in Depth0}
Depth2 == Depth1 \cup {Not(x) : x \in Depth1}
           \cup {And(x, y) : x \in Depth1, y \in Depth0} \cup {Or(x, y) : x \in Depth1, y \in Depth0}
           \cup {And(x, y) : x \in Depth0, y \in Depth1} \cup {Or(x, y) : x \in Depth0, y \in Depth1}
Laws ==
  \A T \in SUBSET TagNames :
    /\ \A x \in Depth1 : Eval(Not(Not(x)), T) = Eval(x, T)
    /\ \A x \in Depth1, y \in Depth0 :
         /\ Eval(Not(And(x, y)), T) = Eval(Or(Not(x), Not(y)), T)
         /\ Eval(Not(Or(x, y)), T) = Eval(And(Not(x), Not(y)), T)
         /\ Eval(And(x, y), T) = (Eval(x, T) /\ Eval(y, T))
         /\ Eval(Or(x, y), T) = (Eval(x, T) \/ Eval(y, T))
         /\ Eval(And(x, y), T) = Eval(And(y, x), T)
=============================================================================
