"""pure-replay engine: TLC enumerates input vectors of a transcribed function,
the harness computes what the real code does, TLC compares (C15..C18)."""
import json
import os
import time

from common import (SPEC, WORK, ToolError, log, read_ndjson, require_ok, run_harness, seed, tlc,
                    tlc_lines, write_ndjson)


def _cfg(path, consts=(), invs=("Dump",)):
    with open(path, "w") as f:
        f.write("SPECIFICATION Spec\n")
        if consts:
            f.write("CONSTANTS\n")
            for k, v in consts:
                f.write(f"  {k} {v}\n")
        if invs:
            f.write("INVARIANTS " + " ".join(invs) + "\n")
        f.write("CHECK_DEADLOCK FALSE\n")


def generate(gen_tla, groups, tag, sample=None):
    """groups: list of (name, consts).  Returns list of vectors (dicts)."""
    out = []
    gens = []
    states = 0
    for name, consts in groups:
        cfg = os.path.join(WORK, f"{tag}_{name}.cfg")
        _cfg(cfg, consts)
        r = tlc(gen_tla, cfg, workers=1, timeout=3000, tag=f"{tag}{name}", heap="6g")
        require_ok(r, f"{gen_tla} {name}")
        got = tlc_lines(r["out"], "REPLAY")
        for k, g in enumerate(got):
            g["id"] = f"{name}.{k}"
        gens.append({"group": name, "vectors": len(got), "wall_s": r["wall_s"]})
        states += r.get("distinct", len(got))
        out.extend(got)
    return out, gens, states


def validate(vectors, harness_cmd, trace_tla, tag, trace_cfg="Trace_Plain.cfg", env_extra=None):
    inp = os.path.join(WORK, f"{tag}_in.ndjson")
    outp = os.path.join(WORK, f"{tag}_out.ndjson")
    write_ndjson(inp, vectors)
    run_harness([harness_cmd, inp, outp])
    recs = read_ndjson(outp)
    if len(recs) != len(vectors):
        raise ToolError(f"{harness_cmd} returned {len(recs)} of {len(vectors)} records")
    env = {"TRACE": outp}
    if env_extra:
        env.update(env_extra)
    r = tlc(trace_tla, os.path.join(SPEC, trace_cfg), workers=1, env=env, timeout=3000,
            tag=tag + "tr", xss=True, heap="6g")
    require_ok(r, trace_tla)
    vs = tlc_lines(r["out"], "VERDICT")
    if len(vs) != len(recs):
        raise ToolError(f"{trace_tla} judged {len(vs)} of {len(recs)} vectors")
    return recs, vs


# ---------------------------------------------------------------------------
# C18
# ---------------------------------------------------------------------------

def check_c18(tier):
    t0 = time.time()
    groups = [("A", [("Group", '= "A"')]), ("B", [("Group", '= "B"')]), ("C", [("Group", '= "C"')])]
    vectors, gens, states = generate("Gen_RetryOpts.tla", groups, "c18")
    recs, vs = validate(vectors, "pure-retry", "Trace_RetryOpts.tla", "c18")
    byid = {r["id"]: r for r in recs}
    violations = []
    for v in vs:
        if v["bad"]:
            violations.append({"sig": "C18:" + sorted(v["bad"])[0],
                               "what": f"{sorted(v['bad'])} differ for vector {v['id']}",
                               "replay": {"property": "C18", "record": byid[v["id"]], "bad": v["bad"]}})
    # the C18 rules of the monitor (budget / limit / fail-fast resolution as observed in driven runs)
    import engine_runner
    res = engine_runner.run_engine(tier)
    tr = engine_runner.run_tracing_engine(tier)
    badc = {c["id"]: c for c in res["bad_cases"] + tr["bad_cases"]}
    for v in res["viols"] + tr["viols"]:
        if v["prop"] == "C18":
            violations.append({"sig": f"C18:{v['rule']}",
                               "what": f"{v['rule']} (driven case {v['case']}, record seq {v['seq']})",
                               "replay": {"property": "C18", "rule": v["rule"], "seq": v["seq"],
                                          "case": badc.get(v["case"])}})
    nontrivial = sum(1 for r in recs if r["actual"]["some"] or r["vec"]["cliConc"] != -1
                     or r["vec"]["bldConc"] != 0 or r["vec"]["cliFF"] or r["vec"]["bldFF"])
    sample = recs[len(recs) // 2]
    cov = {
        "states": states, "transitions": states, "exhaustive": True,
        "generators": gens,
        "checker_cmd": "tlc Gen_RetryOpts.tla (all initial states = all vectors) ; harness pure-retry ; "
                       "tlc -workers 1 Trace_RetryOpts.tla",
        "traces_validated_against_impl": len(vs) + res["ncases"] + tr["ncases"],
        "driven_runs_judged_by_the_C18_rules_of_the_monitor": res["ncases"] + tr["ncases"],
        "evaluations": len(vs), "distinct_nontrivial": nontrivial,
        "rule": "vectors are the elements of VecA/VecB/VecC of RetryOpts.tla (distinct by construction); "
                "non-trivial if the real code resolved Some(options) or a "
                "concurrency / fail-fast setting is involved",
        "samples": [{"vector": sample["vec"], "real": sample["actual"]}],
    }
    return {"level": "model_checking", "coverage": cov, "violations": violations,
            "assumptions": ["only the four tag forms named by the statement are in the domain",
                            "the merged CLI is observed through the `retry_options` function, the "
                            "concurrency limit and fail-fast flag through the cfg(cucumber_verif) hook record",
                            "each vector is one real Runner::run over a one-scenario feature"],
            "wall_s": time.time() - t0}


# ---------------------------------------------------------------------------
# C15
# ---------------------------------------------------------------------------

def check_c15(tier):
    t0 = time.time()
    groups = [("A", [("U", "<- UF"), ("Group", '= "A"')]), ("B", [("U", "<- UF"), ("Group", '= "B"')])]
    out = []
    gens = []
    states = 0
    for name, consts in groups:
        cfg = os.path.join(WORK, f"c15_{name}.cfg")
        _cfg(cfg, consts, invs=("Dump", "LawsHold"))
        r = tlc("Gen_Filter.tla", cfg, workers=1, timeout=3000, tag=f"c15{name}", heap="6g")
        require_ok(r, f"Gen_Filter {name}")
        if r["violated"]:
            raise ToolError("Gen_Filter: the evaluation laws do not hold in the model (specification defect)")
        got = tlc_lines(r["out"], "REPLAY")
        for k, g in enumerate(got):
            g["id"] = f"{name}.{k}"
        gens.append({"group": name, "vectors": len(got), "wall_s": r["wall_s"],
                     "laws": "double negation, De Morgan, and/or semantics, commutativity over all "
                             "expressions of depth <= 2 on 3 tags x 8 tag sets"})
        states += r.get("distinct", len(got))
        out.extend(got)
    vectors = out
    recs, vs = validate(vectors, "pure-filter", "Trace_Filter.tla", "c15", trace_cfg="Trace_U.cfg")
    byid = {r["id"]: r for r in recs}
    violations = []
    for v in vs:
        if v["bad"]:
            violations.append({"sig": "C15:" + sorted(v["bad"])[0],
                               "what": f"runner received other scenarios than the filter accepts (vector {v['id']}, "
                                       f"--tags {byid[v['id']]['expr_text']})",
                               "replay": {"property": "C15", "record": byid[v["id"]]}})
    total = sum(len(f["scenarios"]) + sum(len(r["scenarios"]) for r in f["rules"])
                for f in recs[0]["universe"])
    nontrivial = 0
    for r in recs:
        got = sum(len(f["scenarios"]) + sum(len(x["scenarios"]) for x in f["rules"]) for f in r["received"])
        if 0 < got < total:
            nontrivial += 1
    sample = recs[len(recs) // 2]
    cov = {
        "states": states, "transitions": states, "exhaustive": True, "generators": gens,
        "checker_cmd": "tlc Gen_Filter.tla (all vectors as initial states; invariant LawsHold) ; harness pure-filter ; "
                       "tlc -workers 1 Trace_Filter.tla",
        "traces_validated_against_impl": len(vs), "evaluations": len(vs), "distinct_nontrivial": nontrivial,
        "rule": "vectors: every tag expression of depth <= 2 over 3 tags (group A) and the 2^3 presence "
                "combinations of name regex / tag expression / closure with 5 name sets each (group B), over a "
                "7-scenario universe tagged on all three levels; non-trivial if the filter accepted some but not "
                "all scenarios",
        "samples": [{"vector": sample["vec"], "tags_text": sample["expr_text"], "received": sample["received"]}],
    }
    return {"level": "model_checking", "coverage": cov, "violations": violations,
            "assumptions": ["a name regex is realised as an alternation of scenario names",
                            "tag expressions are rendered to fully parenthesised text and parsed by TagOperation::from_str"],
            "wall_s": time.time() - t0}


# ---------------------------------------------------------------------------
# C17
# ---------------------------------------------------------------------------

def check_c17(tier):
    t0 = time.time()
    maxdefs = 3 if tier == "quick" else 4
    vectors, gens, states = generate("Gen_StepMatch.tla", [("M", [("MaxDefs", f"= {maxdefs}")])], "c17")
    # records with the same SET of definitions adjacent (order independence is judged pairwise)
    vectors.sort(key=lambda v: (sorted(json.dumps(d, sort_keys=True) for d in v["regs"]), v["id"]))
    recs, vs = validate(vectors, "pure-stepmatch", "Trace_StepMatch.tla", "c17")
    byid = {r["id"]: r for r in recs}
    violations = []
    for v in vs:
        if not v["table_ok"]:
            raise ToolError("StepMatch.tla's match table disagrees with the regex crate (specification defect)")
        if v["bad"] or v["order"]:
            what = ("find() result differs for " + str(v["bad"][0]) if v["bad"]
                    else "ambiguity candidates listed in an order that depends on registration order: " + str(v["order"][0]))
            violations.append({"sig": "C17:" + ("find-result" if v["bad"] else "candidate-order"),
                               "what": what + f" (registration {v['id']})",
                               "replay": {"property": "C17", "record": byid[v["id"]], "verdict": v}})
    nontrivial = sum(1 for r in recs if any(f["res"] == "ambiguous" for f in r["finds"])
                     or len({json.dumps(d, sort_keys=True) for d in r["regs"]}) >= 2)
    sample = recs[len(recs) // 2]
    cov = {
        "states": states, "transitions": states, "exhaustive": True, "generators": gens,
        "checker_cmd": "tlc Gen_StepMatch.tla (BFS over registration sequences) ; harness pure-stepmatch ; "
                       "tlc -workers 1 Trace_StepMatch.tla",
        "traces_validated_against_impl": len(vs), "lookups": sum(len(r["finds"]) for r in recs),
        "evaluations": len(vs), "distinct_nontrivial": nontrivial,
        "rule": f"every registration order of every set of <= {maxdefs} definitions out of a pool of 11 "
                "(3 keywords, 6 regexes incl. optional / nested / named / multi-byte groups and one that is not "
                "anchored, same regex at two locations); each order is looked up with 3 keywords x 9 texts; non-trivial if at least two "
                "definitions are registered",
        "samples": [{"registered_in_order": sample["regs"],
                     "finds": [f for f in sample["finds"] if f["res"] != "none"][:4]}],
    }
    return {"level": "model_checking", "coverage": cov, "violations": violations,
            "assumptions": ["the match relation and capture table of StepMatch.tla is cross-checked against the regex crate on every run",
                            "domain: pairwise distinct (keyword, regex, location) keys; re-registering a key replaces it and is excluded",
                            "the chosen definition is identified by its fn pointer and location"],
            "wall_s": time.time() - t0}


# ---------------------------------------------------------------------------
# C16
# ---------------------------------------------------------------------------

def check_c16(tier):
    t0 = time.time()
    groups = [(g, [("Group", f'= "{g}"')]) for g in ("A", "B", "C", "D")]
    vectors, gens, states = generate("Gen_Outline.tla", groups, "c16")
    inp = os.path.join(WORK, "c16_in.ndjson")
    outp = os.path.join(WORK, "c16_out.ndjson")
    write_ndjson(inp, vectors)
    tmp = os.path.join(WORK, "c16_tmp")
    run_harness(["pure-outline", inp, outp, tmp])
    recs = read_ndjson(outp)
    r = tlc("Trace_Outline.tla", os.path.join(SPEC, "Trace_Plain.cfg"), workers=1, env={"TRACE": outp},
            timeout=3000, tag="c16tr", xss=True, heap="6g")
    require_ok(r, "Trace_Outline")
    vs = tlc_lines(r["out"], "VERDICT")
    if len(vs) != len(recs):
        raise ToolError(f"Trace_Outline judged {len(vs)} of {len(recs)} vectors")
    byid = {x["id"]: x for x in recs}
    violations = []
    for v in vs:
        if v["bad"]:
            violations.append({"sig": "C16:" + sorted(v["bad"])[0],
                               "what": f"{sorted(v['bad'])} (vector {v['id']})",
                               "replay": {"property": "C16", "record": byid[v["id"]], "bad": v["bad"]}})
    nontrivial = sum(1 for x in recs if x["actual"]["error"] or
                     len(x["actual"]["scenarios"]) + len(x["actual"]["ruleScenarios"]) >= 2)
    sample = recs[len(recs) // 2]
    cov = {
        "states": states, "transitions": states, "exhaustive": True, "generators": gens,
        "checker_cmd": "tlc Gen_Outline.tla ; harness pure-outline (gherkin parse + expand_examples, and parser::Basic "
                       "on a file) ; tlc -workers 1 Trace_Outline.tla",
        "traces_validated_against_impl": len(vs), "evaluations": len(vs), "distinct_nontrivial": nontrivial,
        "rule": "vectors of Gen_Outline.tla: text shapes (trailing / adjacent / repeated / no placeholder) x value "
                "classes (plain, placeholder-like, '>', '$1', regex metacharacters, empty); doc strings, step "
                "tables, several tagged tables, header-only tables, outlines in a rule; unknown placeholders; "
                "non-trivial if the feature expands to >= 2 scenarios or must be an error",
        "samples": [{"gherkin": sample["text"], "real_expansion": sample["actual"]}],
    }
    return {"level": "model_checking", "coverage": cov, "violations": violations,
            "assumptions": ["literals and values are rendered between U+241F separators so expanded texts can be "
                            "split back into the pieces the TLA+ model predicts; backslash escapes of Gherkin "
                            "tables are out of the domain",
                            "positions are only required to be pairwise distinct",
                            "gherkin crate trusted for parsing"],
            "wall_s": time.time() - t0}


# ---------------------------------------------------------------------------
# C19
# ---------------------------------------------------------------------------

def check_c19(tier):
    t0 = time.time()
    cfg = os.path.join(WORK, "c19_gen.cfg")
    _cfg(cfg, (), invs=("Dump", "Sane"))
    r = tlc("Gen_Codegen.tla", cfg, workers=1, timeout=600, tag="c19gen")
    require_ok(r, "Gen_Codegen")
    if r["violated"]:
        raise ToolError("Codegen.tla: the zoo description is not sane (specification defect)")
    vectors = tlc_lines(r["out"], "REPLAY")[:1]
    vectors[0]["id"] = "zoo"
    recs, vs = validate(vectors, "zoo", "Trace_Codegen.tla", "c19")
    violations = []
    for v in vs:
        for b in v["bad"]:
            violations.append({"sig": "C19:dispatch:" + b["want"]["res"],
                               "what": f"{b['kw']} {b['text']!r}: got {b['got']} {b['call']!r}, "
                                       f"expected {b['want']['res']} {b['want']['call']!r}",
                               "replay": {"property": "C19", "query": b}})
    results = recs[0]["results"]
    queries = {q["id"]: q for q in recs[0]["queries"]}
    nontrivial = sum(1 for x in results if x["res"] != "notfound")
    cov = {
        "evaluations": len(results), "distinct_nontrivial": nontrivial,
        "rule": "every (keyword, text) pair of 3 keywords x the text pool of Codegen.tla is looked up in "
                "ZWorld::collection() and executed on a fresh World; non-trivial if some definition matched "
                "(invoked or failed)",
        "zoo_functions": 27, "attributes": 29,
        "samples": [{"query": queries[x["id"]], "real": x} for x in results if x["res"] != "notfound"][:6],
        "tlc_sanity": "LiteralsMatchOnlyThemselves, OneDefPerAttribute, NoAmbiguityInZoo hold for the description",
    }
    return {"level": "exploration", "coverage": cov, "violations": violations,
            "assumptions": ["C19 quantifies over programs: only this finite, compiled zoo is explored",
                            "the match column of Codegen.tla is the hand-derived semantics of the attribute as "
                            "written (literal = identical text; regex; Cucumber Expression)",
                            "compile-fail behaviour of the macros is out of scope"],
            "wall_s": time.time() - t0}
