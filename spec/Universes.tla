------------------------------ MODULE Universes ------------------------------
(***************************************************************************)
(* Small universes used by the MC_* / Gen_* instances.  Same shape as the  *)
(* harness' FeatureSpec (see Events.tla).                                  *)
(***************************************************************************)
EXTENDS Naturals, Sequences

Sc(n, tags, steps) == [name |-> n, tags |-> tags, steps |-> steps]
Ru(n, tags, bg, scs) == [name |-> n, tags |-> tags, bg |-> bg, scenarios |-> scs]
Fe(n, tags, bg, scs, rules) ==
  [name |-> n, tags |-> tags, bg |-> bg, path |-> TRUE, scenarios |-> scs,
   rules |-> rules]

\* one feature, two top-level scenarios, one retried
UA == << Fe("F1", <<>>, <<>>, <<Sc("S1", <<"retry(1)">>, <<"run">>),
                               Sc("S2", <<>>, <<"run">>)>>, <<>>) >>
\* one feature: a rule with two scenarios and a top-level scenario
UB == << Fe("F1", <<>>, <<>>, <<Sc("S3", <<>>, <<"run">>)>>,
            <<Ru("R1", <<>>, <<>>, <<Sc("S1", <<>>, <<"run">>),
                                    Sc("S2", <<"retry(1)">>, <<"run">>)>>)>>) >>
\* two features; rule-first feature and a plain one
UC == << Fe("F1", <<>>, <<>>, <<Sc("S2", <<"retry(1)">>, <<"run">>)>>,
            <<Ru("R1", <<>>, <<>>, <<Sc("S1", <<>>, <<"run">>)>>)>>),
         Fe("F2", <<>>, <<>>, <<Sc("S3", <<>>, <<"run">>)>>, <<>>) >>
\* two rules in one feature, an empty rule and an empty feature
UD == << Fe("F1", <<>>, <<>>, <<>>,
            <<Ru("R1", <<>>, <<>>, <<Sc("S1", <<"retry(1)">>, <<"run">>)>>),
              Ru("R2", <<>>, <<>>, <<Sc("S2", <<>>, <<"run">>)>>),
              Ru("R3", <<>>, <<>>, <<>>)>>),
         Fe("F2", <<>>, <<>>, <<>>, <<>>) >>
\* three features, one scenario each
UE == << Fe("F1", <<>>, <<>>, <<Sc("S1", <<>>, <<"run">>)>>, <<>>),
         Fe("F2", <<>>, <<>>, <<Sc("S2", <<"retry(1)">>, <<"run">>)>>, <<>>),
         Fe("F3", <<>>, <<>>, <<Sc("S3", <<>>, <<"run">>)>>, <<>>) >>

\* Summarize / combinators / reporters: a background step, a retried scenario with
\* one own step, and a scenario without own steps
US1 == << Fe("F1", <<>>, <<"run">>, <<Sc("S1", <<"retry(2)">>, <<"run">>),
                                     Sc("S2", <<"retry(1)">>, <<>>)>>, <<>>) >>
\* a rule, an @allow.skipped scenario, an untagged one, two features
US2 == << Fe("F1", <<>>, <<>>, <<Sc("S1", <<"retry(1)">>, <<"run", "run">>)>>,
             <<Ru("R1", <<"allow.skipped">>, <<"run">>, <<Sc("S2", <<>>, <<"run">>)>>)>>),
          Fe("F2", <<>>, <<>>, <<Sc("S3", <<"allow.skipped">>, <<"run">>)>>, <<>>) >>
\* no retries at all
US3 == << Fe("F1", <<>>, <<"run">>, <<Sc("S1", <<>>, <<"run", "run">>), Sc("S2", <<>>, <<>>)>>,
             <<Ru("R1", <<>>, <<>>, <<Sc("S3", <<>>, <<"run">>)>>), Ru("R2", <<>>, <<>>, <<>>)>>) >>

\* three own steps and two retries (C12: step texts may repeat inside a scenario)
US4 == << Fe("F1", <<>>, <<"run">>, <<Sc("S1", <<"retry(2)">>, <<"run", "run", "run">>),
                                     Sc("S2", <<>>, <<"run", "run">>)>>, <<>>) >>

\* combinators (C13): untagged scenario with a background, @allow.skipped on a rule,
\* on a feature and on a scenario
UK == << Fe("F1", <<>>, <<"run">>, <<Sc("S1", <<"retry(1)">>, <<"run">>)>>,
            <<Ru("R1", <<"allow.skipped">>, <<"run">>, <<Sc("S2", <<>>, <<"run">>)>>)>>),
         Fe("F2", <<"allow.skipped">>, <<>>, <<Sc("S3", <<>>, <<"run">>)>>, <<>>),
         Fe("F3", <<>>, <<>>, <<Sc("S4", <<"allow.skipped">>, <<"run">>)>>, <<>>) >>

\* combinators (C13): every placement of @allow.skipped on feature / rule / scenario
UKT == << Fe("F1", <<>>, <<>>, <<Sc("S1", <<>>, <<"run">>), Sc("S2", <<"allow.skipped">>, <<"run">>)>>,
             <<Ru("R1", <<>>, <<>>, <<Sc("S3", <<>>, <<"run">>), Sc("S4", <<"allow.skipped">>, <<"run">>)>>),
               Ru("R2", <<"allow.skipped">>, <<>>, <<Sc("S5", <<>>, <<"run">>), Sc("S6", <<"allow.skipped">>, <<"run">>)>>)>>),
          Fe("F2", <<"allow.skipped", "other">>, <<>>, <<Sc("S7", <<>>, <<"run">>)>>,
             <<Ru("R3", <<"other">>, <<>>, <<Sc("S8", <<"other">>, <<"run">>)>>),
               Ru("R4", <<"allow.skipped">>, <<>>, <<Sc("S9", <<>>, <<"run">>)>>)>>),
          Fe("F3", <<"other">>, <<>>, <<Sc("S10", <<"other">>, <<"run">>)>>,
             <<Ru("R5", <<"other">>, <<>>, <<Sc("S11", <<>>, <<"run">>)>>)>>) >>

\* filtering (C15): tags a, b, c on all three levels
UF == << Fe("F1", <<"a">>, <<"run">>, <<Sc("S1", <<"b">>, <<"run">>), Sc("S2", <<>>, <<"run">>)>>,
            <<Ru("R1", <<"c">>, <<"run">>, <<Sc("S3", <<"b">>, <<"run">>), Sc("S4", <<>>, <<"run">>)>>),
              Ru("R2", <<>>, <<>>, <<Sc("S5", <<"c", "b">>, <<"run">>)>>)>>),
         Fe("F2", <<>>, <<>>, <<Sc("S6", <<"a">>, <<"run">>), Sc("S7", <<>>, <<"run">>)>>, <<>>) >>

\* the same universes without a source path (C14: path-less features)
NoPath(V) == [i \in DOMAIN V |-> [V[i] EXCEPT !.path = FALSE]]
US1np == NoPath(US1)
US2np == NoPath(US2)

Fails1 == [s \in {"S1", "S2", "S3"} |-> 1]   \* every retried scenario fails once
Fails0 == [s \in {"S1", "S2", "S3"} |-> 0]
FailsAll == [s \in {"S1", "S2", "S3"} |-> 5]
=============================================================================
