----------------------------- MODULE Trace_Outline -----------------------------
(***************************************************************************)
(* C16, impl -> spec: the scenarios the real parser produced for the       *)
(* rendered feature (gherkin parse + expand_examples, and through          *)
(* parser::Basic on a file), split back into pieces, against               *)
(* ExpandFeature.  Positions are only required to be pairwise distinct.    *)
(***************************************************************************)
EXTENDS Outline, Json, IOUtils
Rec == ndJsonDeserialize(IOEnv.TRACE)
VARIABLE l
Init == l = 1

Strip(scs) == [i \in DOMAIN scs |-> [name |-> scs[i].name, tags |-> scs[i].tags, steps |-> scs[i].steps]]
PosDistinct(scs) == \A i, j \in DOMAIN scs : i # j => <<scs[i].line, scs[i].col>> # <<scs[j].line, scs[j].col>>

Bad(r) ==
  LET e == ExpandFeature(r.feature)   a == r.actual IN
  IF e.error
  THEN (IF a.error THEN {} ELSE {"unknown-placeholder-not-reported"})
       \cup (IF a.error /\ a.name \notin e.names THEN {"error-names-another-placeholder"} ELSE {})
  ELSE (IF a.error THEN {"unexpected-error"} ELSE {})
       \cup (IF ~a.error /\ Strip(a.scenarios) # e.scenarios THEN {"top-level-scenarios-differ"} ELSE {})
       \cup (IF ~a.error /\ Strip(a.ruleScenarios) # e.ruleScenarios THEN {"rule-scenarios-differ"} ELSE {})
       \cup (IF ~a.error /\ ~PosDistinct(a.scenarios \o a.ruleScenarios) THEN {"positions-not-distinct"} ELSE {})
       \cup (IF a.via_parser_same THEN {} ELSE {"parser-Basic-differs-from-expand_examples"})

Next ==
  /\ l <= Len(Rec)
  /\ PrintT(<<"VERDICT", ToJson([id |-> Rec[l].id, bad |-> Bad(Rec[l])])>>)
  /\ l' = l + 1
Spec == Init /\ [][Next]_l
AllChecked ==
  IF TLCGet("stats").diameter = Len(Rec) + 1 THEN TRUE
  ELSE PrintT(<<"INCOMPLETE", TLCGet("stats").diameter, Len(Rec)>>) /\ FALSE
=============================================================================
