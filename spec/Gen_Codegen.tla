----------------------------- MODULE Gen_Codegen -----------------------------
(* C19: all (keyword, text) queries as one JSON line. *)
EXTENDS Codegen, Json
VARIABLE x
RECURSIVE ToSeq(_)
ToSeq(S) == IF S = {} THEN <<>> ELSE LET y == CHOOSE z \in S : TRUE IN <<y>> \o ToSeq(S \ {y})
Queries == ToSeq({[kw |-> k, text |-> t] : k \in Keywords, t \in Texts})
Init == x = 0
Next == UNCHANGED x
Spec == Init /\ [][Next]_x
Dump == PrintT(<<"REPLAY", ToJson([queries |-> [i \in DOMAIN Queries |->
                    [id |-> i, kw |-> Queries[i].kw, text |-> Queries[i].text]]])>>)
Sane == LiteralsMatchOnlyThemselves /\ OneDefPerAttribute /\ NoAmbiguityInZoo
=============================================================================
