------------------------------ MODULE SlotsInd ------------------------------
(***************************************************************************)
(* C06, unbounded: the LOCAL slot rules the monitor RunnerObs enforces at   *)
(* every `get` / `dispatch` / `completed` record                            *)
(*   - want  = limit - running          (free-slot-count-wrong)             *)
(*   - batch <= want                    (batch-larger-than-free-slots)      *)
(*   - slots' = slots - batch           (slot-counter-not-decremented-...)  *)
(*   - slots' = slots + 1 on completion (slot-not-freed-on-completion)      *)
(* imply the GLOBAL statement "never more than `limit` attempts in flight"  *)
(* for every limit >= 1 and every run length.  Proved with TLAPS (SMT);     *)
(* the same module is checked by Apalache as an inductive invariant.        *)
(* It is bound to the code only through those monitor rules: a trace that   *)
(* satisfies them is a behaviour of this specification.                     *)
(***************************************************************************)
EXTENDS Integers, TLAPS

CONSTANT
  \* @type: Int;
  Limit
ASSUME LimitPos == Limit \in Nat /\ Limit >= 1

VARIABLES
  \* @type: Int;
  slots,      \* free slots as the executor counts them (started_scenarios)
  \* @type: Int;
  running     \* attempts dispatched and not yet completed

vars == <<slots, running>>

Init == slots = Limit /\ running = 0

\* a batch of n attempts is fetched and dispatched: n is at most the free slots
Dispatch(n) ==
  /\ n \in Nat /\ n <= slots
  /\ slots' = slots - n
  /\ running' = running + n

\* one attempt completes and frees its slot
Complete ==
  /\ running > 0
  /\ slots' = slots + 1
  /\ running' = running - 1

Next == (\E n \in 0..Limit : Dispatch(n)) \/ Complete
Spec == Init /\ [][Next]_vars

TypeOK == slots \in Int /\ running \in Int
IndInv == TypeOK /\ slots >= 0 /\ running >= 0 /\ slots + running = Limit
NeverOverLimit == running <= Limit

THEOREM InitInd == Init => IndInv
  BY LimitPos DEF Init, IndInv, TypeOK

THEOREM StepInd == IndInv /\ [Next]_vars => IndInv'
  <1> SUFFICES ASSUME IndInv, [Next]_vars PROVE IndInv'
    OBVIOUS
  <1>1. CASE \E n \in 0..Limit : Dispatch(n)
    BY <1>1, LimitPos DEF Dispatch, IndInv, TypeOK
  <1>2. CASE Complete
    BY <1>2, LimitPos DEF Complete, IndInv, TypeOK
  <1>3. CASE UNCHANGED vars
    BY <1>3 DEF vars, IndInv, TypeOK
  <1> QED BY <1>1, <1>2, <1>3 DEF Next

THEOREM Implies == IndInv => NeverOverLimit
  BY LimitPos DEF IndInv, NeverOverLimit, TypeOK

THEOREM Safety == Spec => []NeverOverLimit
  <1>1. Spec => []IndInv
    BY InitInd, StepInd, PTL DEF Spec
  <1> QED BY <1>1, Implies, PTL
=============================================================================
