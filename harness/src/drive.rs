//! `drive-runner`: drives the real `runner::Basic` with a gate-controlled test
//! double and records one ndjson record per linearization point.

use std::{
    cell::RefCell,
    collections::{HashMap, HashSet, VecDeque},
    panic::{self, AssertUnwindSafe},
    pin::Pin,
    sync::{
        Arc, Mutex,
        atomic::{AtomicBool, AtomicU64, Ordering},
        mpsc,
    },
    task::{Context, Poll, Wake, Waker},
    thread,
    time::{Duration, Instant},
};

use cucumber::{
    Event, Runner as _, World,
    event::{self, Cucumber},
    feature::ExpandExamplesError,
    parser,
    runner::{self, basic::ScenarioType},
    step,
};
use futures::{Stream, StreamExt as _, future::LocalBoxFuture};
use rand::{Rng as _, SeedableRng as _, rngs::StdRng};
use regex::Regex;
use serde::{Deserialize, Serialize};
use serde_json::{Value, json};

use crate::{
    evjson::{self, Custom},
    universe::FeatureSpec,
};

// ------------------------------------------------------------------ case ----

#[derive(Clone, Debug, Default, Deserialize, Serialize)]
pub struct AttemptOutcome {
    #[serde(default)]
    pub world: Option<String>,
    #[serde(default)]
    pub before: Option<String>,
    #[serde(default)]
    pub after: Option<String>,
    #[serde(default)]
    pub steps: HashMap<String, String>,
}

#[derive(Clone, Debug, Deserialize, Serialize)]
#[serde(tag = "item")]
pub enum ParserItem {
    #[serde(rename = "feat")]
    Feat {
        idx: usize,
        #[serde(default)]
        pending: usize,
    },
    #[serde(rename = "err")]
    Err {
        #[serde(default)]
        pending: usize,
    },
}

#[derive(Clone, Debug, Default, Deserialize, Serialize)]
pub struct RunCfg {
    #[serde(default)]
    pub conc_cli: Option<usize>,
    /// `"default"` (64), `"none"` (unlimited) or a number.
    #[serde(default)]
    pub conc_builder: Option<Value>,
    #[serde(default)]
    pub fail_fast_cli: bool,
    #[serde(default)]
    pub fail_fast_builder: bool,
    #[serde(default)]
    pub before: bool,
    #[serde(default)]
    pub after: bool,
    #[serde(default)]
    pub retry_cli: Option<usize>,
    #[serde(default)]
    pub retry_after_cli_ms: Option<u64>,
    #[serde(default)]
    pub retry_filter_cli: Option<String>,
    #[serde(default)]
    pub retry_builder: Option<usize>,
    #[serde(default)]
    pub retry_after_builder_ms: Option<u64>,
    #[serde(default)]
    pub retry_filter_builder: Option<String>,
    /// Custom `which_scenario`: scenarios whose name is listed are serial.
    #[serde(default)]
    pub serial_custom: Option<Vec<String>>,
    /// Tracing integration (C20): run through `Cucumber::init_tracing()`; one
    /// such case per process (the subscriber is global).
    #[serde(default)]
    pub tracing: bool,
    /// Log events emitted by every listed callback kind before / after its
    /// suspension point.
    #[serde(default)]
    pub logs_pre: u32,
    #[serde(default)]
    pub logs_post: u32,
    #[serde(default)]
    pub log_points: Vec<String>,
}

#[derive(Clone, Debug, Default, Deserialize, Serialize)]
pub struct Schedule {
    #[serde(default)]
    pub seed: u64,
    /// Gate keys to open, in order; falls back to the random policy after.
    #[serde(default)]
    pub gates: Vec<String>,
    /// Probability (percent) of letting real time pass at a quiescent point.
    #[serde(default)]
    pub sleep_pct: u32,
    #[serde(default)]
    pub sleep_ms: u64,
    /// If not empty, the duration of each such pause is drawn from this list.
    #[serde(default)]
    pub sleep_ms_choices: Vec<u64>,
    /// Probability (percent) of opening several waiting gates at once at a
    /// quiescent point (user code of several scenarios completing in the same
    /// executor turn).
    #[serde(default)]
    pub multi_pct: u32,
}

#[derive(Clone, Debug, Deserialize, Serialize)]
pub struct Case {
    pub id: String,
    pub features: Vec<FeatureSpec>,
    pub parser: Vec<ParserItem>,
    #[serde(default)]
    pub cfg: RunCfg,
    #[serde(default)]
    pub outcomes: HashMap<String, Vec<AttemptOutcome>>,
    #[serde(default)]
    pub schedule: Schedule,
    /// Opaque expectations computed by the generator (budget, delay, serial,
    /// limit, ...); copied into the `reset` record for the trace spec.
    #[serde(default)]
    pub expect: Value,
    /// Writer pipelines to feed the recorded stream through (C01).
    #[serde(default)]
    pub pipelines: Vec<String>,
}

// --------------------------------------------------------------- context ----

struct Recorder {
    lines: Vec<String>,
    seq: u64,
    start: Instant,
    progress: u64,
    /// Consecutive `get`/`idle` records since the last other record; beyond
    /// a bound they are dropped (an executor spinning in its idle branch
    /// would otherwise flood the trace).
    spin: u64,
    dropped: u64,
}

impl Recorder {
    fn push(&mut self, kind: &str, fields: &str) {
        if matches!(kind, "get" | "idle") {
            self.spin += 1;
            if self.spin > 200 {
                self.dropped += 1;
                return;
            }
        } else {
            self.spin = 0;
        }
        self.seq += 1;
        let t = self.start.elapsed().as_micros();
        let sep = if fields.is_empty() { "" } else { "," };
        self.lines.push(format!(
            "{{\"seq\":{},\"t_us\":{t},\"kind\":\"{kind}\"{sep}{fields}}}",
            self.seq
        ));
        if matches!(kind, "ev" | "cb" | "insert" | "perr" | "pfin") {
            self.progress += 1;
        }
    }
}

struct Ctx {
    rec: Arc<Mutex<Recorder>>,
    outcomes: HashMap<String, Vec<AttemptOutcome>>,
    last_sc: Option<(String, usize)>,
    started_att: HashMap<String, usize>,
    waiting: Vec<String>,
    wakers: HashMap<String, Waker>,
    opened: HashSet<String>,
    world_ctr: u64,
    logs_pre: u32,
    logs_post: u32,
    log_points: Vec<String>,
}

thread_local! {
    static CTX: RefCell<Option<Ctx>> = const { RefCell::new(None) };
}

fn with_ctx<R>(f: impl FnOnce(&mut Ctx) -> R) -> R {
    CTX.with(|c| {
        let mut g = c.borrow_mut();
        f(g.as_mut().expect("harness context not installed"))
    })
}

fn rec(kind: &str, fields: Value) {
    let s = fields.to_string();
    let inner = s.trim_start_matches('{').trim_end_matches('}').to_owned();
    // `Value::to_string` of an object is `{...}`; strip the braces.
    with_ctx(|c| c.rec.lock().unwrap().push(kind, &inner));
}

/// Sink installed into `cucumber::verif`.
fn sink(kind: &'static str, fields: String) {
    with_ctx(|c| {
        if kind == "ev" {
            // Track the attempt the last scenario event belongs to.
            if let Ok(v) =
                serde_json::from_str::<Value>(&format!("{{{fields}}}"))
            {
                if v["t"] == "Sc" {
                    let s = v["s"].as_str().unwrap_or("").to_owned();
                    let cur = v["cur"].as_u64().unwrap_or(0) as usize;
                    if v["k"] == "Started" {
                        c.started_att.insert(s.clone(), cur);
                    }
                    c.last_sc = Some((s, cur));
                } else {
                    c.last_sc = None;
                }
            }
        } else {
            c.last_sc = None;
        }
        c.rec.lock().unwrap().push(kind, &fields);
    });
}

// ----------------------------------------------------------------- gates ----

struct Gate {
    key: String,
    registered: bool,
}

impl Gate {
    fn new(key: String) -> Self {
        Self { key, registered: false }
    }
}

impl Future for Gate {
    type Output = ();

    fn poll(mut self: Pin<&mut Self>, cx: &mut Context<'_>) -> Poll<()> {
        let key = self.key.clone();
        let registered = self.registered;
        let ready = with_ctx(|c| {
            if c.opened.remove(&key) {
                c.wakers.remove(&key);
                true
            } else {
                if !registered {
                    c.waiting.push(key.clone());
                }
                c.wakers.insert(key.clone(), cx.waker().clone());
                false
            }
        });
        self.registered = true;
        if ready { Poll::Ready(()) } else { Poll::Pending }
    }
}

/// Emits the scripted `tracing` log events of a callback (C20).
fn emit_logs(point: &str, phase: &str, s: &str, att: i64, label: &str) {
    let n = with_ctx(|c| {
        if c.log_points.iter().any(|p| p == point) {
            if phase == "pre" { c.logs_pre } else { c.logs_post }
        } else {
            0
        }
    });
    for k in 0..n {
        // (some messages contain `__`, the separator the collector appends
        // its scenario suffix with)
        let msg = format!(
            "L|{s}|{att}|{}|{phase}{k}{}",
            label.replace(' ', "_"),
            if k % 3 == 2 { "__init__" } else { "" },
        );
        rec(
            "cb",
            json!({"cb":"log","point":point,"s":s,"att":att,"label":label,
                   "msg":msg,"world":0,"ctr":0}),
        );
        // every other log is emitted from inside a user span nested in the
        // step / hook span (`#[instrument]`-style helpers do that)
        // (levels vary: `init_tracing()` passes INFO and above)
        let emit = || match k % 3 {
            0 => tracing::info!("{msg}"),
            1 => tracing::warn!("{msg}"),
            _ => tracing::error!("{msg}"),
        };
        if k % 2 == 1 {
            tracing::info_span!("user_helper", k).in_scope(|| {
                tracing::info_span!("inner").in_scope(emit);
            });
        } else {
            emit();
        }
    }
}

/// `<outcome>_sync`: the callback panics in its own body, before it returns
/// its future.
fn sync_outcome(out: &str) -> Option<&str> {
    out.strip_suffix("_sync")
}

// ----------------------------------------------------------- test double ----

#[derive(Debug)]
pub struct TWorld {
    id: u64,
    owner: (String, usize),
    ctr: u64,
}

fn attempt_outcome(c: &Ctx, s: &str, att: usize) -> AttemptOutcome {
    c.outcomes
        .get(s)
        .and_then(|v| v.get(att))
        .cloned()
        .unwrap_or_default()
}

fn throw(outcome: &str, msg: String) {
    match outcome {
        "pass" | "ok" => {}
        "panic_string" => panic::panic_any(msg),
        "panic_str" => {
            let s: &'static str = Box::leak(msg.into_boxed_str());
            panic::panic_any(s)
        }
        "panic_custom" => panic::panic_any(Custom(msg)),
        other => panic!("harness: unknown outcome {other}"),
    }
}

impl World for TWorld {
    type Error = String;

    async fn new() -> Result<Self, String> {
        let (id, owner) = with_ctx(|c| {
            c.world_ctr += 1;
            (c.world_ctr, c.last_sc.clone().unwrap_or(("?".into(), 0)))
        });
        rec(
            "cb",
            json!({"cb":"enter","point":"world","s":owner.0,"att":owner.1,
                   "label":"world","world":id,"ctr":0}),
        );
        Gate::new(format!("{}#{}:world", owner.0, owner.1)).await;
        let out = with_ctx(|c| attempt_outcome(c, &owner.0, owner.1))
            .world
            .unwrap_or_else(|| "ok".into());
        let msg = format!("P|{}|{}|world", owner.0, owner.1);
        rec(
            "cb",
            json!({"cb":"exit","point":"world","s":owner.0,"att":owner.1,
                   "label":"world","world":id,"ctr":0,"outcome":out,
                   "msg":msg}),
        );
        if out == "err" {
            return Err(msg);
        }
        throw(&out, msg);
        Ok(Self { id, owner, ctr: 0 })
    }
}

fn step_fn(w: &mut TWorld, ctx: step::Context) -> LocalBoxFuture<'_, ()> {
    {
        let text = ctx.step.value.clone();
        let label = text.rsplitn(2, ' ').nth(1).unwrap_or("").to_owned();
        let (s, att) = w.owner.clone();
        let out = with_ctx(|c| attempt_outcome(c, &s, att))
            .steps
            .get(&label)
            .cloned()
            .unwrap_or_else(|| "pass".into());
        if let Some(out) = sync_outcome(&out) {
            rec(
                "cb",
                json!({"cb":"enter","point":"step","s":s,"att":att,"label":label,
                       "world":w.id,"ctr":w.ctr,"nmatches":ctx.matches.len()}),
            );
            w.ctr += 1;
            let msg = format!("P|{s}|{att}|{label}");
            rec(
                "cb",
                json!({"cb":"exit","point":"step","s":s,"att":att,"label":label,
                       "world":w.id,"ctr":w.ctr,"outcome":out,"msg":msg,
                       "sync":true}),
            );
            throw(out, msg);
        }
    }
    Box::pin(async move {
        let text = ctx.step.value.clone();
        // "<owner> (bg|step) <n> run"
        let label = text.rsplitn(2, ' ').nth(1).unwrap_or("").to_owned();
        let (s, att) = w.owner.clone();
        let nmatches = ctx.matches.len();
        rec(
            "cb",
            json!({"cb":"enter","point":"step","s":s,"att":att,"label":label,
                   "world":w.id,"ctr":w.ctr,"nmatches":nmatches}),
        );
        emit_logs("step", "pre", &s, att as i64, &label);
        Gate::new(format!("{s}#{att}:{label}")).await;
        emit_logs("step", "post", &s, att as i64, &label);
        w.ctr += 1;
        let out = with_ctx(|c| attempt_outcome(c, &s, att))
            .steps
            .get(&label)
            .cloned()
            .unwrap_or_else(|| "pass".into());
        let msg = format!("P|{s}|{att}|{label}");
        rec(
            "cb",
            json!({"cb":"exit","point":"step","s":s,"att":att,"label":label,
                   "world":w.id,"ctr":w.ctr,"outcome":out,"msg":msg}),
        );
        throw(&out, msg);
    })
}

fn reason_str(r: &event::ScenarioFinished) -> String {
    use event::{ScenarioFinished as SF, StepError};
    match r {
        SF::BeforeHookFailed(_) => "BeforeHookFailed".into(),
        SF::StepPassed => "StepPassed".into(),
        SF::StepSkipped => "StepSkipped".into(),
        SF::StepFailed(_, _, e) => format!(
            "StepFailed:{}",
            match e {
                StepError::NotFound => "notfound",
                StepError::AmbiguousMatch(_) => "ambig",
                StepError::Panic(_) => "panic",
            }
        ),
    }
}

fn before<'a>(
_f: &'a gherkin::Feature,
_r: Option<&'a gherkin::Rule>,
s: &'a gherkin::Scenario,
w: &'a mut TWorld,
) -> LocalBoxFuture<'a, ()> {
    let s = crate::universe::ident(s);
    {
        let att = with_ctx(|c| c.started_att.get(&s).copied())
            .map_or(-1, |a| a as i64);
        let out = with_ctx(|c| attempt_outcome(c, &s, att.max(0) as usize))
            .before
            .unwrap_or_else(|| "pass".into());
        if let Some(out) = sync_outcome(&out) {
            rec(
                "cb",
                json!({"cb":"enter","point":"before","s":s,"att":att,
                       "label":"before","world":w.id,"ctr":w.ctr,
                       "wowner_s":w.owner.0,"wowner_att":w.owner.1}),
            );
            w.ctr += 1;
            let msg = format!("P|{s}|{att}|before");
            rec(
                "cb",
                json!({"cb":"exit","point":"before","s":s,"att":att,
                       "label":"before","world":w.id,"ctr":w.ctr,
                       "outcome":out,"msg":msg,"sync":true}),
            );
            throw(out, msg);
        }
    }
    Box::pin(async move {
        let att = with_ctx(|c| c.started_att.get(&s).copied())
            .map_or(-1, |a| a as i64);
        rec(
            "cb",
            json!({"cb":"enter","point":"before","s":s,"att":att,
                   "label":"before","world":w.id,"ctr":w.ctr,
                   "wowner_s":w.owner.0,"wowner_att":w.owner.1}),
        );
        emit_logs("before", "pre", &s, att, "before");
        Gate::new(format!("{s}#{att}:before")).await;
        emit_logs("before", "post", &s, att, "before");
        w.ctr += 1;
        let out = with_ctx(|c| attempt_outcome(c, &s, att.max(0) as usize))
            .before
            .unwrap_or_else(|| "pass".into());
        let msg = format!("P|{s}|{att}|before");
        rec(
            "cb",
            json!({"cb":"exit","point":"before","s":s,"att":att,
                   "label":"before","world":w.id,"ctr":w.ctr,
                   "outcome":out,"msg":msg}),
        );
        throw(&out, msg);
    })
}

fn after<'a>(
_f: &'a gherkin::Feature,
_r: Option<&'a gherkin::Rule>,
s: &'a gherkin::Scenario,
reason: &'a event::ScenarioFinished,
w: Option<&'a mut TWorld>,
) -> LocalBoxFuture<'a, ()> {
    let s = crate::universe::ident(s);
    let reason = reason_str(reason);
    let mut w = w;
    {
        let att = with_ctx(|c| c.started_att.get(&s).copied())
            .map_or(-1, |a| a as i64);
        let out = with_ctx(|c| attempt_outcome(c, &s, att.max(0) as usize))
            .after
            .unwrap_or_else(|| "pass".into());
        if let Some(out) = sync_outcome(&out) {
            let (wid, ctr, wo_s, wo_a) =
                w.as_ref().map_or((0, 0, String::new(), 0), |w| {
                    (w.id, w.ctr, w.owner.0.clone(), w.owner.1)
                });
            rec(
                "cb",
                json!({"cb":"enter","point":"after","s":s,"att":att,
                       "label":"after","world":wid,"ctr":ctr,
                       "has_world":w.is_some(),"reason":reason,
                       "wowner_s":wo_s,"wowner_att":wo_a}),
            );
            let mut ctr = ctr;
            if let Some(w) = w.as_mut() {
                w.ctr += 1;
                ctr = w.ctr;
            }
            let msg = format!("P|{s}|{att}|after");
            rec(
                "cb",
                json!({"cb":"exit","point":"after","s":s,"att":att,
                       "label":"after","world":wid,"ctr":ctr,
                       "outcome":out,"msg":msg,"sync":true}),
            );
            throw(out, msg);
        }
    }
    Box::pin(async move {
        let att = with_ctx(|c| c.started_att.get(&s).copied())
            .map_or(-1, |a| a as i64);
        let (wid, ctr, wo_s, wo_a) =
            w.as_ref().map_or((0, 0, String::new(), 0), |w| {
                (w.id, w.ctr, w.owner.0.clone(), w.owner.1)
            });
        rec(
            "cb",
            json!({"cb":"enter","point":"after","s":s,"att":att,
                   "label":"after","world":wid,"ctr":ctr,
                   "has_world":w.is_some(),"reason":reason,
                   "wowner_s":wo_s,"wowner_att":wo_a}),
        );
        emit_logs("after", "pre", &s, att, "after");
        Gate::new(format!("{s}#{att}:after")).await;
        emit_logs("after", "post", &s, att, "after");
        let mut ctr = ctr;
        if let Some(w) = w {
            w.ctr += 1;
            ctr = w.ctr;
        }
        let out = with_ctx(|c| attempt_outcome(c, &s, att.max(0) as usize))
            .after
            .unwrap_or_else(|| "pass".into());
        let msg = format!("P|{s}|{att}|after");
        rec(
            "cb",
            json!({"cb":"exit","point":"after","s":s,"att":att,
                   "label":"after","world":wid,"ctr":ctr,
                   "outcome":out,"msg":msg}),
        );
        throw(&out, msg);
    })
}



// --------------------------------------------------------- parser stream ----

struct ScriptedParser {
    items: VecDeque<(usize, ParserItem)>,
    features: Vec<gherkin::Feature>,
    gate: Option<Gate>,
}

impl Stream for ScriptedParser {
    type Item = parser::Result<gherkin::Feature>;

    fn poll_next(
        mut self: Pin<&mut Self>,
        cx: &mut Context<'_>,
    ) -> Poll<Option<Self::Item>> {
        loop {
            let Some((n, item)) = self.items.front().cloned() else {
                return Poll::Ready(None);
            };
            let pending = match &item {
                ParserItem::Feat { pending, .. }
                | ParserItem::Err { pending } => *pending,
            };
            if pending > 0 {
                if self.gate.is_none() {
                    self.gate =
                        Some(Gate::new(format!("parser:{n}:{pending}")));
                }
                let g = self.gate.as_mut().unwrap();
                match Pin::new(g).poll(cx) {
                    Poll::Pending => return Poll::Pending,
                    Poll::Ready(()) => {
                        self.gate = None;
                        if let Some((_, it)) = self.items.front_mut() {
                            match it {
                                ParserItem::Feat { pending, .. }
                                | ParserItem::Err { pending } => *pending -= 1,
                            }
                        }
                    }
                }
            } else {
                self.items.pop_front();
                return Poll::Ready(Some(match item {
                    ParserItem::Feat { idx, .. } => {
                        Ok(self.features[idx].clone())
                    }
                    ParserItem::Err { .. } => {
                        Err(parser::Error::ExampleExpansion(Arc::new(
                            ExpandExamplesError {
                                pos: gherkin::LineCol { line: n, col: 1 },
                                name: format!("perr{n}"),
                                path: None,
                            },
                        )))
                    }
                }));
            }
        }
    }
}

/// `Parser` handing out the scripted stream (for the `Cucumber` builder).
struct ParserOf(RefCell<Option<ScriptedParser>>);

impl cucumber::Parser<()> for ParserOf {
    type Cli = cucumber::cli::Empty;
    type Output = ScriptedParser;

    fn parse(self, (): (), _: cucumber::cli::Empty) -> ScriptedParser {
        self.0.borrow_mut().take().expect("parser stream")
    }
}

thread_local! {
    /// What the recording writer of a tracing run received (projections).
    static TRACED: RefCell<Vec<Value>> = const { RefCell::new(Vec::new()) };
}

// ----------------------------------------------------------------- waker ----

struct FlagWaker {
    woken: AtomicBool,
    thread: thread::Thread,
}

impl Wake for FlagWaker {
    fn wake(self: Arc<Self>) {
        self.wake_by_ref();
    }

    fn wake_by_ref(self: &Arc<Self>) {
        self.woken.store(true, Ordering::SeqCst);
        self.thread.unpark();
    }
}

// ------------------------------------------------------------------ run ----

pub static SENTINEL_CALLS: AtomicU64 = AtomicU64::new(0);

pub type Item = parser::Result<Event<Cucumber<TWorld>>>;

pub struct RunResult {
    pub lines: Vec<String>,
    pub hung: bool,
}

fn run_case_inner(
    case: &Case,
    recorder: Arc<Mutex<Recorder>>,
    items_out: Arc<Mutex<Vec<Item>>>,
) {
    CTX.with(|c| {
        *c.borrow_mut() = Some(Ctx {
            rec: Arc::clone(&recorder),
            outcomes: case.outcomes.clone(),
            last_sc: None,
            started_att: HashMap::new(),
            waiting: Vec::new(),
            wakers: HashMap::new(),
            opened: HashSet::new(),
            world_ctr: 0,
            logs_pre: case.cfg.logs_pre,
            logs_post: case.cfg.logs_post,
            log_points: case.cfg.log_points.clone(),
        });
    });
    cucumber::verif::set_sink(Some(Box::new(sink)));

    let features: Vec<gherkin::Feature> =
        case.features.iter().map(FeatureSpec::build).collect();

    let parser_stream = ScriptedParser {
        items: case.parser.iter().cloned().enumerate().collect(),
        features,
        gate: None,
    };

    let re = |s: &str| Regex::new(s).unwrap();
    let loc = |line| {
        Some(step::Location { path: "harness/steps.rs", line, column: 1 })
    };
    let collection = step::Collection::<TWorld>::new()
        .given(loc(1), re(r"^(\S+) (bg|step) (\d+) run$"), step_fn)
        .given(loc(2), re(r"^(\S+) (bg|step) (\d+) ambig$"), step_fn)
        .given(loc(3), re(r"^.* ambig$"), step_fn)
        .when(loc(1), re(r"^(\S+) (bg|step) (\d+) run$"), step_fn)
        .when(loc(2), re(r"^(\S+) (bg|step) (\d+) ambig$"), step_fn)
        .when(loc(3), re(r"^.* ambig$"), step_fn)
        .then(loc(1), re(r"^(\S+) (bg|step) (\d+) run$"), step_fn)
        .then(loc(2), re(r"^(\S+) (bg|step) (\d+) ambig$"), step_fn)
        .then(loc(3), re(r"^.* ambig$"), step_fn);

    let cfg = &case.cfg;
    let base = runner::Basic::<TWorld>::default().steps(collection);
    // The DEFAULT classifier (`@serial` inherited from scenario, rule and
    // feature) unless the case asks for a custom one.
    if let Some(names) = cfg.serial_custom.clone() {
        let which = move |_: &gherkin::Feature,
                          _: Option<&gherkin::Rule>,
                          s: &gherkin::Scenario| {
            if names.contains(&crate::universe::ident(s)) {
                ScenarioType::Serial
            } else {
                ScenarioType::Concurrent
            }
        };
        run_with(
            base.which_scenario(which),
            case,
            parser_stream,
            &recorder,
            &items_out,
        );
    } else {
        run_with(base, case, parser_stream, &recorder, &items_out);
    }

    cucumber::verif::set_sink(None);
}

/// Configures the runner as the case says and drives it (generic over the
/// scenario classifier, which is part of the runner's type).
fn run_with<F>(
    mut basic: runner::Basic<TWorld, F>,
    case: &Case,
    parser_stream: ScriptedParser,
    recorder: &Arc<Mutex<Recorder>>,
    items_out: &Arc<Mutex<Vec<Item>>>,
) where
    F: Fn(
            &gherkin::Feature,
            Option<&gherkin::Rule>,
            &gherkin::Scenario,
        ) -> ScenarioType
        + Clone
        + 'static,
{
    let cfg = &case.cfg;
    // In every other tracing run the runner is configured through the builder
    // methods of `Cucumber` (after the CLI options were given), not directly.
    let late_hooks = cfg.tracing && case.schedule.seed % 2 == 0;
    let plain = late_hooks.then(|| basic.clone());
    match &cfg.conc_builder {
        None => {}
        Some(Value::String(s)) if s == "default" => {}
        Some(Value::String(s)) if s == "none" => {
            basic = basic.max_concurrent_scenarios(None);
        }
        Some(v) => {
            basic = basic
                .max_concurrent_scenarios(v.as_u64().map(|n| n as usize));
        }
    }
    if cfg.fail_fast_builder {
        basic = basic.fail_fast();
    }
    basic = basic
        .retries(cfg.retry_builder)
        .retry_after(cfg.retry_after_builder_ms.map(Duration::from_millis));
    if let Some(f) = &cfg.retry_filter_builder {
        basic = basic.retry_filter(Some(
            f.parse::<gherkin::tagexpr::TagOperation>().unwrap(),
        ));
    }

    let cli = runner::basic::Cli {
        concurrency: cfg.conc_cli,
        fail_fast: cfg.fail_fast_cli,
        retry: cfg.retry_cli,
        retry_after: cfg.retry_after_cli_ms.map(Duration::from_millis),
        retry_tag_filter: cfg
            .retry_filter_cli
            .as_ref()
            .map(|f| f.parse().unwrap()),
    };

    if cfg.tracing {
        // Through the `Cucumber` builder with `init_tracing()`; the raw stream
        // is recorded by the writer.
        let rec_writer = crate::writers::RecW::default();
        let wlog = std::rc::Rc::clone(&rec_writer.log);
        let opts = || cucumber::cli::Opts {
            re_filter: None,
            tags_filter: None,
            parser: cucumber::cli::Empty,
            runner: cli.clone(),
            writer: cucumber::cli::Empty,
            custom: cucumber::cli::Empty,
        };
        let wr = || {
            cucumber::writer::AssertNormalized::new(rec_writer.clone())
        };
        let p = || ParserOf(RefCell::new(None));
        // The hooks are added with the `Cucumber` builder AFTER the CLI options
        // were given (an application may call the builder methods in any
        // order), except in every other case, where the runner carries them.
        macro_rules! app {
            ($runner:expr, |$c:ident| $wrap:expr) => {{
                let pp = p();
                *pp.0.borrow_mut() = Some(parser_stream);
                let $c = cucumber::Cucumber::<TWorld, _, (), _, _, cucumber::cli::Empty>::custom(
                    pp, $runner, wr(),
                )
                .with_cli(opts());
                let app = $wrap.init_tracing();
                Box::pin(async move { drop(app.run(()).await) })
                    as Pin<Box<dyn Future<Output = ()>>>
            }};
        }
        // the runner configuration, applied with the `Cucumber` builder
        macro_rules! late_cfg {
            ($c:expr) => {{
                let mut c = $c;
                match &cfg.conc_builder {
                    None => {}
                    Some(Value::String(s)) if s == "default" => {}
                    Some(Value::String(s)) if s == "none" => {
                        c = c.max_concurrent_scenarios(None);
                    }
                    Some(v) => {
                        c = c.max_concurrent_scenarios(
                            v.as_u64().map(|n| n as usize),
                        );
                    }
                }
                if cfg.fail_fast_builder {
                    c = c.fail_fast();
                }
                c = c.retries(cfg.retry_builder).retry_after(
                    cfg.retry_after_builder_ms.map(Duration::from_millis),
                );
                if let Some(f) = &cfg.retry_filter_builder {
                    c = c.retry_filter(Some(
                        f.parse::<gherkin::tagexpr::TagOperation>().unwrap(),
                    ));
                }
                c
            }};
        }
        let mut fut: Pin<Box<dyn Future<Output = ()>>> =
            match (cfg.before, cfg.after, plain) {
                (false, false, None) => app!(basic, |c| c),
                (true, false, None) => app!(basic.before(before), |c| c),
                (false, true, None) => app!(basic.after(after), |c| c),
                (true, true, None) => {
                    app!(basic.before(before).after(after), |c| c)
                }
                (false, false, Some(b)) => app!(b, |c| late_cfg!(c)),
                (true, false, Some(b)) => {
                    app!(b, |c| late_cfg!(c).before(before))
                }
                (false, true, Some(b)) => {
                    app!(b, |c| late_cfg!(c).after(after))
                }
                (true, true, Some(b)) => {
                    app!(b, |c| late_cfg!(c).before(before).after(after))
                }
            };
        drive(
            Box::new(move |cx| match fut.as_mut().poll(cx) {
                Poll::Ready(()) => Poll::Ready(None),
                Poll::Pending => Poll::Pending,
            }),
            case,
            recorder,
            items_out,
        );
        TRACED.with(|t| *t.borrow_mut() = wlog.borrow().clone());
    } else {
        // Build the stream for the four hook combinations (distinct types).
        let mut stream: futures::stream::LocalBoxStream<'static, Item> =
            match (cfg.before, cfg.after) {
                (false, false) => basic.run(parser_stream, cli),
                (true, false) => basic.before(before).run(parser_stream, cli),
                (false, true) => basic.after(after).run(parser_stream, cli),
                (true, true) => {
                    basic.before(before).after(after).run(parser_stream, cli)
                }
            };
        drive(
            Box::new(move |cx| stream.poll_next_unpin(cx)),
            case,
            recorder,
            items_out,
        );
    }

}

/// What is polled: yields stream items, `None` when the run is over.
type Poller<'a> = Box<dyn FnMut(&mut Context<'_>) -> Poll<Option<Item>> + 'a>;

fn drive(
    mut poller: Poller<'_>,
    case: &Case,
    recorder: &Arc<Mutex<Recorder>>,
    items_out: &Arc<Mutex<Vec<Item>>>,
) {
    let flag = Arc::new(FlagWaker {
        woken: AtomicBool::new(false),
        thread: thread::current(),
    });
    let waker = Waker::from(Arc::clone(&flag));
    let mut cx = Context::from_waker(&waker);
    let mut rng = StdRng::seed_from_u64(case.schedule.seed);
    let mut sched: VecDeque<String> =
        case.schedule.gates.iter().cloned().collect();
    let mut polls: u64 = 0;
    let mut idle_polls: u64 = 0;
    let mut max_idle_polls: u64 = 0;
    let mut last_progress = 0;
    let mut quiescent_points = 0u64;
    let mut diverged = false;
    let deadline = Instant::now() + Duration::from_secs(20);
    // last time a progress record was produced (busy-polling detection)
    let mut last_progress_at = Instant::now();

    loop {
        flag.woken.store(false, Ordering::SeqCst);
        polls += 1;
        let r = poller(&mut cx);
        let progress = recorder.lock().unwrap().progress;
        match r {
            Poll::Ready(Some(item)) => {
                idle_polls = 0;
                last_progress = progress;
                last_progress_at = Instant::now();
                items_out.lock().unwrap().push(item);
                continue;
            }
            Poll::Ready(None) => {
                rec(
                    "end",
                    json!({"polls":polls,"max_idle_polls":max_idle_polls,
                           "quiescent_points":quiescent_points,
                           "sched_diverged":diverged}),
                );
                break;
            }
            Poll::Pending => {}
        }
        if progress != last_progress {
            last_progress = progress;
            last_progress_at = Instant::now();
            idle_polls = 0;
        } else {
            idle_polls += 1;
            max_idle_polls = max_idle_polls.max(idle_polls);
        }
        let woken = flag.woken.load(Ordering::SeqCst);
        if woken && idle_polls < 3 {
            continue;
        }
        // Quiescent (or busy-polling without progress): make an external
        // choice.
        let waiting = with_ctx(|c| c.waiting.clone());
        if waiting.is_empty() {
            if woken {
                // busy-polling with nothing to open: let it spin, bounded
                // (a real run makes progress within microseconds).
                // (both wall time AND a large number of fruitless polls: a
                // thread that was merely descheduled accumulates no polls)
                if (last_progress_at.elapsed() > Duration::from_millis(700)
                    && idle_polls > 20_000)
                    || Instant::now() > deadline
                {
                    rec("stuck", json!({"why":"busy","polls":polls}));
                    break;
                }
                continue;
            }
            // waiting for real time (retry delay sleeper thread)
            let t0 = Instant::now();
            while !flag.woken.load(Ordering::SeqCst) {
                thread::park_timeout(Duration::from_millis(2));
                if t0.elapsed() > Duration::from_millis(4000) {
                    break;
                }
            }
            if !flag.woken.load(Ordering::SeqCst) {
                rec("stuck", json!({"why":"deadlock","polls":polls}));
                break;
            }
            continue;
        }
        quiescent_points += 1;
        rec("quiescent", json!({"waiting":waiting,"busy":woken}));
        if case.schedule.sleep_pct > 0
            && rng.random_range(0..100) < case.schedule.sleep_pct
        {
            let ms = if case.schedule.sleep_ms_choices.is_empty() {
                case.schedule.sleep_ms
            } else {
                let ch = &case.schedule.sleep_ms_choices;
                ch[rng.random_range(0..ch.len())]
            };
            thread::sleep(Duration::from_millis(ms));
            rec("slept", json!({"ms":ms}));
        }
        let key = loop {
            match sched.pop_front() {
                // a scheduled tick: let real time pass (a retry delay elapses)
                Some(k) if k == "@sleep" => {
                    thread::sleep(Duration::from_millis(case.schedule.sleep_ms));
                    rec("slept", json!({"ms":case.schedule.sleep_ms}));
                }
                Some(k) if waiting.contains(&k) => break k,
                Some(k) => {
                    diverged = true;
                    rec(
                        "sched_diverged",
                        json!({"wanted": k, "waiting": waiting.clone()}),
                    );
                    sched.clear();
                }
                None => {
                    break waiting[rng.random_range(0..waiting.len())].clone();
                }
            }
        };
        let mut keys = vec![key];
        if waiting.len() > 1
            && case.schedule.multi_pct > 0
            && rng.random_range(0..100) < case.schedule.multi_pct
        {
            for k in &waiting {
                if !keys.contains(k)
                    && !k.starts_with("parser:")
                    && rng.random_range(0..100) < 70
                {
                    keys.push(k.clone());
                }
            }
        }
        for key in keys {
            rec("open", json!({"gate":key}));
            let w = with_ctx(|c| {
                c.waiting.retain(|k| *k != key);
                c.opened.insert(key.clone());
                c.wakers.remove(&key)
            });
            if let Some(w) = w {
                w.wake();
            }
        }
        idle_polls = 0;
        if Instant::now() > deadline {
            rec("stuck", json!({"why":"deadline","polls":polls}));
            break;
        }
    }
}

/// Runs one case on a fresh thread with a watchdog.
pub fn run_case(case: &Case) -> RunResult {
    let recorder = Arc::new(Mutex::new(Recorder {
        lines: Vec::new(),
        seq: 0,
        start: Instant::now(),
        progress: 0,
        spin: 0,
        dropped: 0,
    }));
    // Sentinel panic hook (C10).
    let prev_hook = panic::take_hook();
    panic::set_hook(Box::new(|_| {
        SENTINEL_CALLS.fetch_add(1, Ordering::SeqCst);
    }));
    let calls_before = SENTINEL_CALLS.load(Ordering::SeqCst);

    let (tx, rx) = mpsc::channel::<Result<(), String>>();
    let case2 = case.clone();
    let rec2 = Arc::clone(&recorder);
    // Items are `!Send` (they hold `Arc<dyn Any>` worlds...), so they are
    // projected inside the worker thread.
    let projected: Arc<Mutex<Vec<Value>>> = Arc::new(Mutex::new(Vec::new()));
    let proj2 = Arc::clone(&projected);
    let verdicts: Arc<Mutex<Vec<Value>>> = Arc::new(Mutex::new(Vec::new()));
    let verd2 = Arc::clone(&verdicts);
    let handle = thread::Builder::new()
        .name(format!("case-{}", case.id))
        .stack_size(16 << 20)
        .spawn(move || {
            let local_items: Arc<Mutex<Vec<Item>>> =
                Arc::new(Mutex::new(Vec::new()));
            let li = Arc::clone(&local_items);
            let r = panic::catch_unwind(AssertUnwindSafe(|| {
                run_case_inner(&case2, rec2, li);
            }));
            let items = std::mem::take(&mut *local_items.lock().unwrap());
            *proj2.lock().unwrap() = if case2.cfg.tracing {
                TRACED.with(|t| {
                    t.borrow()
                        .iter()
                        .filter_map(|l| l.get("ev").cloned())
                        .collect()
                })
            } else {
                items.iter().map(evjson::describe).collect()
            };
            let calls_during = SENTINEL_CALLS.load(Ordering::SeqCst);
            // pipelines (C01) are fed after the run, outside its panic-hook
            // window
            let v = crate::writers::feed_pipelines(&case2.pipelines, items);
            *verd2.lock().unwrap() = v;
            let _ = tx.send(match r {
                Ok(()) => Ok(()),
                Err(e) => Err(format!("{:?}", evjson::payload(&Arc::from(e)))),
            });
            calls_during
        })
        .unwrap();

    let outcome = rx.recv_timeout(Duration::from_secs(8));
    let mut hung = false;
    let mut escaped: Option<String> = None;
    let mut calls_during = SENTINEL_CALLS.load(Ordering::SeqCst);
    match outcome {
        Ok(Ok(())) => {
            calls_during = handle.join().unwrap_or(calls_during);
        }
        Ok(Err(e)) => {
            escaped = Some(e);
            calls_during = handle.join().unwrap_or(calls_during);
        }
        Err(_) => {
            hung = true; // thread is leaked (it spins inside one poll)
        }
    }

    // Probe: is the sentinel hook in place again?
    let before_probe = SENTINEL_CALLS.load(Ordering::SeqCst);
    let _ = panic::catch_unwind(|| panic!("probe"));
    let restored = SENTINEL_CALLS.load(Ordering::SeqCst) == before_probe + 1;
    drop(panic::take_hook());
    panic::set_hook(prev_hook);

    let mut lines = recorder.lock().unwrap().lines.clone();
    let seq = lines.len() as u64;
    let mk = |i: u64, kind: &str, v: Value| {
        let s = v.to_string();
        let inner = s.trim_start_matches('{').trim_end_matches('}').to_owned();
        let sep = if inner.is_empty() { "" } else { "," };
        format!("{{\"seq\":{},\"t_us\":0,\"kind\":\"{kind}\"{sep}{inner}}}", seq + i)
    };
    if hung {
        lines.push(mk(1, "hang", json!({})));
    }
    if let Some(e) = escaped {
        lines.push(mk(1, "escaped", json!({"payload":e})));
    }
    lines.push(mk(
        2,
        "post",
        json!({"sentinel_calls": calls_during - calls_before,
               "hook_restored": restored, "hung": hung,
               "dropped_spin_records": recorder.lock().unwrap().dropped}),
    ));
    let rx_items = projected.lock().unwrap().clone();
    let verdicts = verdicts.lock().unwrap().clone();
    for (i, v) in verdicts.into_iter().enumerate() {
        lines.push(mk(3 + i as u64, "verdict", v));
    }
    RunResult { lines: merge_rx(lines, &rx_items), hung }
}

/// Cross-checks the received stream items against the hooked sends and
/// merges payload information into the `ev` records.
fn merge_rx(lines: Vec<String>, rx: &[Value]) -> Vec<String> {
    let mut out = Vec::with_capacity(lines.len() + 1);
    let mut i = 0usize;
    let mut diff: Option<Value> = None;
    for l in lines {
        let Ok(mut v) = serde_json::from_str::<Value>(&l) else {
            out.push(l);
            continue;
        };
        let kind = v["kind"].as_str().unwrap_or("").to_owned();
        if matches!(kind.as_str(), "ev" | "perr" | "pfin") {
            match rx.get(i) {
                None => {
                    if diff.is_none() {
                        diff = Some(json!({"why":"sent but not received",
                                           "at":i,"sent":v.clone()}));
                    }
                }
                Some(r) => {
                    let same = match kind.as_str() {
                        "perr" => r["t"] == "ParseErr",
                        "pfin" => {
                            r["t"] == "ParsingFinished"
                                && ["features", "rules", "scenarios", "steps",
                                    "parser_errors"]
                                    .iter()
                                    .all(|k| r[*k] == v[*k])
                        }
                        _ => ["t", "f", "r", "s", "k", "h", "cur", "left",
                              "retr", "step", "bg", "err"]
                            .iter()
                            .all(|k| r.get(*k) == v.get(*k)),
                    };
                    if !same && diff.is_none() {
                        diff = Some(json!({"why":"received differs from sent",
                                           "at":i,"sent":v.clone(),
                                           "received":r.clone()}));
                    }
                    if kind == "pfin" {
                        v["t"] = json!("ParsingFinished");
                    }
                    if kind == "perr" {
                        v["t"] = json!("ParseErr");
                        v["msg"] = r["msg"].clone();
                    }
                    if kind == "perr" {
                        // item index inside the scripted parser stream
                        let re = Regex::new(r"<perr(\d+)>").unwrap();
                        let item = re
                            .captures(r["msg"].as_str().unwrap_or(""))
                            .and_then(|c| c[1].parse::<i64>().ok())
                            .unwrap_or(-1);
                        v["item"] = json!(item);
                    }
                    if r["k"] == "Log" {
                        let re = Regex::new(r"L\|[^\s]*").unwrap();
                        let m = re
                            .find(r["msg"].as_str().unwrap_or(""))
                            .map_or("", |m| m.as_str());
                        v["lmsg"] = json!(m);
                    }
                    for k in ["pty", "pmsg", "ptext", "caps", "loc", "cands", "world"] {
                        if let Some(x) = r.get(k) {
                            v[k] = x.clone();
                        }
                    }
                }
            }
            i += 1;
            // fields the monitor reads must exist even if the item was never
            // received (hung or stuck run)
            if kind == "perr" && v.get("item").is_none() {
                v["item"] = json!(-1);
            }
            if kind == "ev" && v["t"] == "Sc" {
                let k = v["k"].as_str().unwrap_or("").to_owned();
                if k == "Log" && v.get("lmsg").is_none() {
                    v["lmsg"] = json!("");
                }
                if matches!(k.as_str(), "StepF" | "HookF") {
                    for (key, dflt) in [
                        ("pty", json!("")),
                        ("pmsg", json!("")),
                        ("cands", json!([])),
                        ("world", json!(false)),
                    ] {
                        if v.get(key).is_none() {
                            v[key] = dflt;
                        }
                    }
                }
            }
        }
        out.push(v.to_string());
    }
    if i < rx.len() && diff.is_none() {
        diff = Some(json!({"why":"received but not sent through the hooks",
                           "at":i,"received":rx[i].clone()}));
    }
    if let Some(d) = diff {
        let s = d.to_string();
        out.push(format!(
            "{{\"seq\":0,\"t_us\":0,\"kind\":\"rxdiff\",{}",
            s.trim_start_matches('{')
        ));
    }
    out
}
