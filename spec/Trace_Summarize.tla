--------------------------- MODULE Trace_Summarize ---------------------------
(***************************************************************************)
(* C12 and the writer half of C01, impl -> spec: for every stream replayed *)
(* through the REAL writer::Summarize (and the stats pipelines), the       *)
(* getters, scenario statistics, verdicts and the log of the inner writer  *)
(* are judged against the declarative counters of Summarize.tla computed   *)
(* from the very stream that was fed.  All records of one file share one   *)
(* universe (the first record's).                                          *)
(***************************************************************************)
EXTENDS Summarize, Combinators, Json, IOUtils

Rec == ndJsonDeserialize(IOEnv.TRACE)
TraceU == Rec[1].universe

VARIABLE l
Init == l = 1

\* log: sequence of "ev:<t>" / "write" entries the inner writer received
WritesOK(stream, log) ==
  LET nfin == Cardinality({i \in DOMAIN stream : stream[i].t = "Finished"})
      ws == {i \in DOMAIN log : log[i] = "write"}
  IN /\ Cardinality(ws) = (IF nfin > 0 THEN 1 ELSE 0)
     /\ \A i \in ws : i > 1 /\ log[i - 1] = "ev:Finished"
     \* ... and it is the FIRST run-Finished it follows
     /\ \A i \in ws : \A j \in 1..(i - 2) : log[j] # "ev:Finished"
\* the numbers printed in the summary text are the counters (omitted parts are zeros)
TextOK(t, a) ==
  ~t.present \/
  /\ t.features = a.features /\ t.rules = a.rules
  /\ t.sc_passed = a.sc_passed /\ t.sc_skipped = a.sc_skipped /\ t.sc_failed = a.sc_failed
  /\ t.sc_retried = a.sc_retried /\ t.sc_total = a.sc_passed + a.sc_skipped + a.sc_failed
  /\ t.st_passed = a.passed_steps /\ t.st_skipped = a.skipped_steps /\ t.st_failed = a.failed_steps
  /\ t.st_retried = a.retried_steps /\ t.st_total = a.passed_steps + a.skipped_steps + a.failed_steps
  /\ t.parsing_errors = a.parsing_errors /\ t.hook_errors = a.hook_errors

Verdict(r) ==
  LET d == DeclRun(DeclInit, r.stream)
      a == r.actual
      m == AsIsRun(AsIsInit, r.stream)
      \* a known finding is only recognised when the stream has its shape AND the
      \* real counters are exactly what the as-is transcription predicts
      shape == IF ~SameAsAsIs(m, a) THEN ""
               ELSE IF d.f1 THEN "F1" ELSE IF d.f4a THEN "F4a" ELSE IF d.f4b THEN "F4b" ELSE ""
      c12 == (IF CountersOK(d, a) THEN {} ELSE {<<"C12", "step-or-error-counters-differ-from-stream", shape>>})
             \cup (IF a.features = d.feats /\ a.rules = d.rules THEN {}
                   ELSE {<<"C12", "feature-or-rule-counters-differ-from-stream", shape>>})
             \cup (IF ScenariosOK(d, a) THEN {}
                   ELSE {<<"C12", IF shape = "" THEN "scenario-counters-differ-from-last-attempts"
                                  ELSE "scenario-counted-wrongly-known-shape", shape>>})
             \cup (IF WritesOK(r.stream, r.log) THEN {} ELSE {<<"C12", "summary-not-written-exactly-once-right-after-Finished", shape>>})
             \cup (IF TextOK(r.text, a) THEN {} ELSE {<<"C12", "summary-text-states-other-numbers-than-the-counters", "">>})
      \* behind FailOnSkipped the statistics writer sees the rewritten stream
      sFos == FoS(r.stream, ShouldFailDefault)
      dFos == DeclRun(DeclInit, sFos)
      mFos == AsIsRun(AsIsInit, sFos)
      Exp(v) == IF v.fos THEN DeclFailed(dFos) ELSE DeclFailed(d)
      \* known shape F1: reported failed although no attempt failed finally, the stream has a
      \* hook failure in a retried attempt, and the verdict is what today's machine predicts
      IsF1(v) == v.failed /\ ~Exp(v) /\ v.parsing_errors = 0
                 /\ (IF v.fos THEN dFos.f1 /\ AsIsFailed(mFos) ELSE d.f1 /\ AsIsFailed(m))
      c01 == {<<"C01", IF IsF1(v) THEN "run-failed-only-by-hook-failure-of-a-retried-attempt"
                       ELSE "verdict-differs-from-final-failure", v.pipeline>>
               : v \in {x \in Range(r.verdicts) : x.failed # Exp(x)}}
             \cup {<<"C01", "run_and_exit-does-not-follow-the-statistics-verdict", v.pipeline>>
                     : v \in {x \in Range(r.verdicts) : x.writer_panic = "" /\ x.exit_failed # x.failed}}
  IN c12 \cup c01

Next ==
  /\ l <= Len(Rec)
  /\ LET r == Rec[l] IN
     PrintT(<<"VERDICT", ToJson([id |-> r.id, n |-> Len(r.stream), viol |-> Verdict(r)])>>)
  /\ l' = l + 1

Spec == Init /\ [][Next]_l

AllChecked ==
  IF TLCGet("stats").diameter = Len(Rec) + 1 THEN TRUE
  ELSE PrintT(<<"INCOMPLETE", TLCGet("stats").diameter, Len(Rec)>>) /\ FALSE
=============================================================================
