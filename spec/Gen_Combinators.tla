--------------------------- MODULE Gen_Combinators ---------------------------
(***************************************************************************)
(* C13, spec -> impl: ALL input sequences up to length MaxLen over an      *)
(* alphabet of events (not restricted to the Runner contract: the          *)
(* wrappers are stateless per event), one JSON line per sequence.          *)
(***************************************************************************)
EXTENDS Combinators, Universes, Json

CONSTANTS MaxLen,   \* BFS bound (Group = "bfs")
          Group     \* "bfs": all sequences up to MaxLen; "pairs": all of length <= 2;
                    \* "fin3": all triples with run-Finished at exactly one position
                    \* "tagmatrix": see TagMatrix (cfg binds U to UKT)

R1_ == Retries(0, 1)
R2_ == Retries(1, 0)
Alphabet ==
  { EvStarted, EvFinished, EvParseErr(1), EvFeatS("F1"), EvRuleS("F1", "R1"), EvWrite,
    EvSc("F1", "", "S1", R1_, "StepSk", "", 2, ""),      \* own step, untagged: rewritten
    EvSc("F1", "", "S1", R1_, "StepSk", "", 1, ""),      \* background step, untagged: rewritten
    EvSc("F1", "R1", "S2", NoRetries, "StepSk", "", 2, ""),  \* rule background, rule tagged
    EvSc("F1", "R1", "S2", NoRetries, "StepSk", "", 3, ""),  \* own step, rule tagged
    EvSc("F2", "", "S3", NoRetries, "StepSk", "", 1, ""),    \* feature tagged
    EvSc("F3", "", "S4", NoRetries, "StepSk", "", 1, ""),    \* scenario tagged
    EvSc("F1", "", "S1", R1_, "StepF", "", 2, "panic"),      \* retried failure
    EvSc("F1", "", "S1", R2_, "StepF", "", 2, "panic"),      \* final failure
    EvSc("F1", "", "S1", R1_, "HookF", "b", 0, ""),
    EvSc("F1", "", "S1", R2_, "HookF", "a", 0, ""),
    EvSc("F1", "", "S1", R1_, "StepP", "", 1, ""),
    \* the same kinds for a scenario inside a rule
    EvSc("F1", "R1", "S2", NoRetries, "HookF", "b", 0, ""),
    EvSc("F1", "R1", "S2", NoRetries, "HookF", "a", 0, ""),
    EvSc("F1", "R1", "S2", NoRetries, "StepF", "", 2, "panic"),   \* rule background step
    EvSc("F1", "R1", "S2", NoRetries, "StepF", "", 3, "ambig"),
    EvSc("F1", "R1", "S2", NoRetries, "StepP", "", 3, ""),
    EvSc("F1", "", "S1", R1_, "StepF", "", 1, "panic") }          \* feature background step

VARIABLE inp
NoFin == Alphabet \ {EvFinished}
Pairs == {<<>>} \cup {<<a>> : a \in Alphabet} \cup {<<a, b>> : a \in Alphabet, b \in Alphabet}
Fin3 == {<<EvFinished, a, b>> : a \in NoFin, b \in NoFin} \cup {<<a, EvFinished, b>> : a \in NoFin, b \in NoFin}
        \cup {<<a, b, EvFinished>> : a \in NoFin, b \in NoFin}
\* "tagmatrix" (universe UKT): one Skipped own step per scenario, alone and followed by run-Finished
TagMatrix == LET sk(s) == LET x == ScenRec(U, s) IN EvSc(x.f, x.r, s, NoRetries, "StepSk", "", 1, "")
             IN {<<sk(s)>> : s \in ScenNames(U)} \cup {<<sk(s), EvFinished>> : s \in ScenNames(U)}
Init == CASE Group = "tagmatrix" -> inp \in TagMatrix
          [] Group = "bfs" -> inp = <<>>
          [] Group = "pairs" -> inp \in Pairs
          [] Group = "fin3" -> inp \in Fin3
Next == Group = "bfs" /\ Len(inp) < MaxLen /\ \E a \in Alphabet : inp' = Append(inp, a)
Spec == Init /\ [][Next]_inp

Dump == PrintT(<<"REPLAY", ToJson([universe |-> U, inp |-> inp])>>)
=============================================================================
